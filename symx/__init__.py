"""symx: a small symbolic executor for Python source, built for the MyST-Parser checks."""
