"""Runtime support called by instrumented code (the `_ms_*` hooks and the shadowed builtins)."""
from __future__ import annotations

import builtins
import re as _re
import string as _string
import types

from . import core
from .core import SBool, SInt, Unsupported, mk_bool, mk_int, b_not, b_or, b_and
from .sstr import SStr, SBytes, CP, STR_METHODS, contains, join, lift, zt, is_sym, cp_in_ivs, ivs_of_chars, atom_eq

INSTRUMENTED_MODULES: set = set()  # __name__ of instrumented module copies
ENTERED: set = set()  # qualified names of instrumented functions entered
FUNC_NAMES: list = []


def rt_enter(i):
    ENTERED.add(i)


def entered_names():
    return sorted(FUNC_NAMES[i] for i in ENTERED)


def rt_in(item, container):
    return contains(container, item)


def rt_not_in(item, container):
    return b_not(contains(container, item))


_HEX = {c: int(c, 16) for c in "0123456789abcdefABCDEF"}
_DIG = ivs_of_chars("0123456789")
_LOH = ivs_of_chars("abcdef")
_UPH = ivs_of_chars("ABCDEF")


def rt_int(x=0, base=10):
    if isinstance(x, SInt):
        return x
    if isinstance(x, SBool):
        return x.__int__()
    if isinstance(x, SStr):
        if base not in (10, 16):
            raise Unsupported("int() base")
        s = STR_METHODS["strip"](x)
        if not isinstance(s, SStr):
            return int(s, base)
        cps = list(s.cps)
        neg = False
        if cps:
            first = s[0]
            if (first == "-") if isinstance(first, str) else bool(first == "-"):
                neg = True
                cps = cps[1:]
            elif (first == "+") if isinstance(first, str) else bool(first == "+"):
                cps = cps[1:]
        if not cps:
            raise ValueError("invalid literal for int()")
        if base == 16 and not neg and all(not isinstance(c, int) and c.hexsrc is not None for c in cps):
            tok, _, width, _ = cps[0].hexsrc
            if len(cps) == width and all(c.hexsrc[0] is tok and c.hexsrc[1] == k for k, c in enumerate(cps)):
                return tok.x  # int(format(x, '0<width>X'), 16) == x
        total = 0
        for c in cps:
            if isinstance(c, int):
                ch = chr(c)
                if ch not in _HEX or _HEX[ch] >= base:
                    if ch.isdigit() or ch == "_":
                        raise Unsupported("int() on non-ASCII digit / underscore")
                    raise ValueError("invalid literal for int() with base %d" % base)
                d = _HEX[ch]
            else:
                if cp_in_ivs(c, _DIG):
                    d = SInt(zt(c)) - 48
                elif base == 16 and cp_in_ivs(c, _LOH):
                    d = SInt(zt(c)) - 87
                elif base == 16 and cp_in_ivs(c, _UPH):
                    d = SInt(zt(c)) - 55
                else:
                    from .sstr import table

                    if cp_in_ivs(c, table("digit"), "digit") or atom_eq(c, 95):
                        raise Unsupported("int() on non-ASCII digit / underscore")
                    raise ValueError("invalid literal for int() with base %d" % base)
            total = total * base + d
        return -total if neg else total
    if isinstance(x, str):
        return int(x, base)
    return int(x)


rt_int.__name__ = "int"


def rt_chr(v):
    if isinstance(v, SInt):
        if v < 0 or v > 0x10FFFF:
            if v > 0x7FFFFFFF or v < -0x80000000:
                raise OverflowError("Python int too large to convert to C int")
            raise ValueError("chr() arg not in range(0x110000)")
        return SStr((CP(v.e),))
    return chr(v)


def rt_ord(s):
    if isinstance(s, SStr):
        if len(s) != 1:
            raise TypeError("ord() expected a character, but string of length %d found" % len(s))
        c = s.cps[0]
        return c if isinstance(c, int) else SInt(zt(c))
    return ord(s)


def _norm_cls(cls):
    if cls is rt_str:
        return str
    if cls is rt_int:
        return int
    if cls is rt_bool:
        return bool
    if cls is rt_bytes:
        return bytes
    if isinstance(cls, tuple):
        return tuple(_norm_cls(c) for c in cls)
    return cls


def _has(cls, t):
    return cls is t or (isinstance(cls, tuple) and t in cls)


def rt_isinstance(x, cls):
    cls = _norm_cls(cls)
    if isinstance(x, SStr):
        t = x._ctype
        if _has(cls, t):
            return True
        if isinstance(cls, tuple):
            return any(rt_isinstance(x, c) for c in cls)
        try:
            return issubclass(t, cls)
        except TypeError:
            return isinstance(t(), cls)
    if isinstance(x, SInt):
        if _has(cls, int):
            return True
        return isinstance(0, cls) and not _has(cls, bool)
    if isinstance(x, SBool):
        if _has(cls, bool) or _has(cls, int):
            return True
        return isinstance(True, cls)
    return isinstance(x, cls)


def rt_issubclass(c, cls):
    return issubclass(_norm_cls(c), _norm_cls(cls))


def rt_type(*a):
    if len(a) == 1:
        x = a[0]
        if isinstance(x, SStr):
            return x._ctype
        if isinstance(x, SInt):
            return int
        if isinstance(x, SBool):
            return bool
    return type(*a)


def rt_str(x="", *a):
    if isinstance(x, SStr):
        if isinstance(x, SBytes):
            if a:
                return STR_METHODS["decode"](x, *a)
            raise Unsupported("str(symbolic bytes)")
        return x
    if isinstance(x, SInt):
        return int_to_str(x)
    if isinstance(x, SBool):
        return "True" if x else "False"
    if not a and not isinstance(x, (str, bytes, int, float)):
        f = getattr(type(x), "__str__", None)
        if f is not None and "_ms_call" in getattr(f, "__globals__", {}):
            return f(x)
    if isinstance(x, BaseException) and not a:
        if len(x.args) == 1 and isinstance(x.args[0], SStr) and type(x).__str__ is BaseException.__str__:
            return x.args[0]
        if _deep_has_sym(x.args):
            return "sym-str"
    return str(x, *a)


rt_str.__name__ = "str"
rt_str.join = str.join
rt_str.lower = str.lower
rt_str.strip = str.strip
rt_str.maketrans = str.maketrans


def int_to_str(x: SInt):
    v = core.engine().concretize_int(x)
    return str(v)


def rt_bytes(*a, **k):
    if a and is_sym(a[0]):
        raise Unsupported("bytes(symbolic)")
    return bytes(*a, **k)


def rt_bool(x=False):
    if isinstance(x, SBool):
        return x
    if isinstance(x, SInt):
        return x != 0
    if isinstance(x, SStr):
        return len(x) > 0
    return bool(x)


rt_bool.__name__ = "bool"


def rt_len(x):
    return len(x)


def rt_repr(x):
    if isinstance(x, SStr):
        return "sym-repr"
    if isinstance(x, SInt):
        return int_to_str(x)
    return repr(x)


def rt_fmt(value, conv, spec):
    if isinstance(value, SStr):
        if conv == ord("r") or conv == ord("a"):
            return "sym-repr"
        if not spec:
            return value
        raise Unsupported("format spec on symbolic string")
    if isinstance(value, SInt):
        if isinstance(spec, str) and len(spec) >= 2 and spec[-1] in "Xx" and spec[0] == "0" and spec[1:-1].isdigit():
            return hex_digits(value, int(spec[1:-1]), spec[-1] == "X")
        v = unique_int(value)
        if v is None:
            return "sym-int"  # message text only: a symbolic integer with several feasible values
        return format(v, spec if isinstance(spec, str) else "")
    if isinstance(value, SBool):
        value = bool(value)
    if conv == ord("r"):
        value = _safe_repr(value)
    elif conv == ord("s"):
        value = _safe_str(value)
    elif conv == ord("a"):
        value = ascii(value)
    elif not spec and not isinstance(value, (str, int, float)):
        r = _safe_str(value)
        if isinstance(r, SStr):
            return r
        value = r
    try:
        return format(value, spec)
    except Unsupported:
        return "sym-fmt"


def hex_digits(x, width, upper):
    """format(x, '0<width>X') for a symbolic non-negative int that fits in `width` digits."""
    import z3

    eng = core.engine()
    if eng._check(z3.Or(x.e < 0, x.e >= 16 ** width)) != z3.unsat:
        raise Unsupported("hex formatting of a symbolic int that may not fit the width")
    out = []
    token = HexToken(x)
    for k, i in enumerate(range(width - 1, -1, -1)):
        d = (x.e / (16 ** i)) % 16
        cp = CP(z3.If(d < 10, 48 + d, (55 if upper else 87) + d))
        cp.hexsrc = (token, k, width, upper)
        out.append(cp)
    return SStr(out)


class HexToken:
    def __init__(self, x):
        self.x = x


def unique_int(x):
    """The value of a symbolic int if the path condition pins it to one value, else None (no fork)."""
    import z3

    eng = core.engine()
    m = eng._get_model()
    val = m.eval(x.e, model_completion=True).as_long()
    if eng._check(x.e != val) == z3.unsat:
        return val
    return None


def _deep_has_sym(v, depth=0):
    if is_sym(v):
        return True
    if depth > 3:
        return False
    if isinstance(v, (list, tuple, set, frozenset)):
        return any(_deep_has_sym(x, depth + 1) for x in v)
    if isinstance(v, dict):
        return any(_deep_has_sym(k, depth + 1) or _deep_has_sym(x, depth + 1) for k, x in v.items())
    return False


def _safe_repr(v):
    if _deep_has_sym(v):
        return "sym-repr"
    try:
        return repr(v)
    except Unsupported:
        return "sym-repr"


def _safe_str(v):
    f = getattr(type(v), "__str__", None)
    if f is not None and "_ms_call" in getattr(f, "__globals__", {}):
        return f(v)  # instrumented __str__: may legitimately return a symbolic string
    if _deep_has_sym(v):
        return "sym-str"
    try:
        return str(v)
    except Unsupported:
        return "sym-str"


def rt_fstr(*parts):
    allc = True
    for p in parts:
        if not isinstance(p, str):
            allc = False
            break
    if allc:
        return "".join(parts)
    return join("", parts)


def rt_mod(a, b):
    """a % b : string formatting with symbolic operands, or arithmetic."""
    if isinstance(a, str):
        args = b if isinstance(b, tuple) else (b,)
        if isinstance(b, dict) or not any(_deep_has_sym(x) for x in args):
            if isinstance(b, dict) and _deep_has_sym(b):
                raise Unsupported("%-format with symbolic mapping")
            return a % b
        # simple %s / %r / %d splitting
        out = []
        i = 0
        ai = 0
        while i < len(a):
            ch = a[i]
            if ch == "%":
                if i + 1 >= len(a):
                    raise ValueError("incomplete format")
                k = a[i + 1]
                if k == "%":
                    out.append("%")
                elif k in "srd":
                    v = args[ai]
                    ai += 1
                    if k == "s":
                        out.append(rt_str(v) if is_sym(v) else _safe_str(v))
                    elif k == "r":
                        out.append(rt_repr(v) if is_sym(v) else _safe_repr(v))
                    else:
                        out.append(rt_str(v) if isinstance(v, SInt) else "%d" % v)
                else:
                    raise Unsupported("%-format directive with symbolic operand")
                i += 2
            else:
                out.append(ch)
                i += 1
        if ai != len(args):
            raise TypeError("not all arguments converted during string formatting")
        return join("", out)
    return a % b


def _str_format(fmt, args, kw):
    out = []
    auto = 0
    for lit, field, spec, conv in _string.Formatter().parse(fmt):
        if lit:
            out.append(lit)
        if field is None:
            continue
        if spec:
            raise Unsupported("str.format with spec and symbolic args")
        if field == "":
            v = args[auto]
            auto += 1
        elif field.isdigit():
            v = args[int(field)]
        elif field.isidentifier():
            v = kw[field]
        else:
            raise Unsupported("str.format complex field")
        if conv == "r":
            out.append(rt_repr(v) if is_sym(v) else _safe_repr(v))
        else:
            out.append(rt_str(v) if is_sym(v) else _safe_str(v))
    return join("", out)


# callee classification -------------------------------------------------------

_TRANSPARENT_BUILTINS = {
    id, hash, getattr, setattr, hasattr, delattr, iter, next, enumerate, zip, range, list, tuple, dict, set,
    frozenset, sorted, reversed, any, all, min, max, sum, print, isinstance, issubclass, callable, super,
    map, filter, len, abs, divmod, vars, dir, type, object, property, staticmethod, classmethod, slice,
    Exception, ValueError, TypeError, KeyError, IndexError, RuntimeError, AttributeError, NotImplementedError,
    AssertionError, StopIteration, OSError, LookupError, UnicodeError, locals, globals, id,
}
TRANSPARENT_EXTRA: set = set()  # module names declared symbolic-transparent by a harness
_TRANSPARENT_MODULES = (
    "dataclasses", "copy", "itertools", "functools", "collections", "typing", "contextlib", "operator", "abc",
    "enum", "symx", "harness", "types", "warnings", "_collections_abc", "collections.abc", "inspect",
)
_CONTAINER_TYPES = (list, dict, set, frozenset, tuple, types.GeneratorType)


def _callee_is_native(f):
    """True if f would not understand symbolic values (so symbolic args must be concretised)."""
    if f in _RT_FUNCS:
        return False
    try:
        if f in _TRANSPARENT_BUILTINS:
            return False
    except TypeError:
        pass
    g = getattr(f, "__globals__", None)
    if g is None:
        func = getattr(f, "__func__", None)
        if func is not None:
            g = getattr(func, "__globals__", None)
    if g is not None:
        if "_ms_call" in g:
            return False
        mod = g.get("__name__", "")
    else:
        if isinstance(f, type):
            mod = f.__module__
            if mod in INSTRUMENTED_MODULES:
                return False
            if issubclass(f, BaseException):
                return False
            # class whose __init__ is instrumented (subclass defined in a harness) is fine
            init = f.__dict__.get("__init__")
            if init is not None and "_ms_call" in getattr(init, "__globals__", {}):
                return False
        else:
            slf = getattr(f, "__self__", None)
            if slf is not None and isinstance(slf, _CONTAINER_TYPES + (SStr, SInt, SBool)):
                return False
            mod = getattr(f, "__module__", None) or ""
            if isinstance(f, functools_partial):
                return _callee_is_native(f.func)
    for t in _TRANSPARENT_MODULES:
        if mod == t or mod.startswith(t + "."):
            return False
    if mod in TRANSPARENT_EXTRA:
        return False
    return True


import functools as _functools

functools_partial = _functools.partial


def _shallow_has_sym(args, kw):
    for a in args:
        if is_sym(a):
            return True
        if isinstance(a, (list, tuple)):
            for x in a:
                if is_sym(x):
                    return True
        elif isinstance(a, dict):
            for k, x in a.items():
                if is_sym(k) or is_sym(x):
                    return True
    for a in kw.values():
        if is_sym(a):
            return True
    return False


def _has_symstr(args, kw):
    for a in list(args) + list(kw.values()):
        if isinstance(a, SStr):
            return True
        if isinstance(a, (list, tuple)) and any(isinstance(x, SStr) for x in a):
            return True
    return False


def _needs_concretize(f, args, kw):
    """Symbolic arguments must be concretised for native callees; modules a harness declared
    transparent (they only store their arguments) let symbolic ints/bools through, but never strings."""
    if not _callee_is_native(f):
        if _has_symstr(args, kw):
            g = getattr(f, "__globals__", None) or getattr(getattr(f, "__func__", None), "__globals__", None) or {}
            mod = g.get("__name__") if g else getattr(f, "__module__", "")
            return mod in TRANSPARENT_STR_CONCRETIZE
        return False
    return True


TRANSPARENT_STR_CONCRETIZE = {"docutils.nodes", "docutils.utils", "docutils.statemachine"}


def rt_call(f, *args, **kw):
    d = _BUILTIN_DISPATCH.get(f) if f.__class__ in _BUILTIN_KINDS else None
    if d is not None:
        return d(*args, **kw)
    if (args or kw) and _shallow_has_sym(args, kw) and _needs_concretize(f, args, kw):
        eng = core.engine()
        args = tuple(eng.concretize(a) for a in args)
        kw = {k: eng.concretize(v) for k, v in kw.items()}
    return f(*args, **kw)


def rt_callm(obj, name, *args, **kw):
    if isinstance(obj, SStr):
        if name == "join":
            return join(obj, *args)
        f = STR_METHODS.get(name)
        if f is None:
            raise Unsupported("str.%s on symbolic" % name)
        return f(obj, *args, **kw)
    t = type(obj)
    if t is str or t is bytes:
        sym = False
        for a in args:
            if is_sym(a):
                sym = True
                break
            if isinstance(a, tuple) and any(is_sym(x) for x in a):
                sym = True
                break
        if not sym and kw:
            sym = any(is_sym(v) for v in kw.values())
        if sym:
            if name == "format":
                return _str_format(obj, args, kw)
            f = STR_METHODS.get(name)
            if f is None:
                raise Unsupported("str.%s with symbolic argument" % name)
            return f(SStr.of(obj), *args, **kw)
        if name == "join" and args and not isinstance(args[0], (str, bytes)):
            return join(obj, args[0])
        if name == "format" and _deep_has_sym(args):
            return _str_format(obj, args, kw)
        return getattr(obj, name)(*args, **kw)
    if t in (list, dict, set, tuple, frozenset):
        return getattr(obj, name)(*args, **kw)
    if t is _re.Pattern:
        for a in args:
            if is_sym(a):
                from . import sre

                return getattr(sre.SYMRE.compile(obj), name)(*args, **kw)
        return getattr(obj, name)(*args, **kw)
    f = getattr(obj, name)
    if (args or kw) and _shallow_has_sym(args, kw) and _needs_concretize(f, args, kw):
        eng = core.engine()
        args = tuple(eng.concretize(a) for a in args)
        kw = {k: eng.concretize(v) for k, v in kw.items()}
    return f(*args, **kw)


def rt_getitem(obj, key):
    if isinstance(key, (SStr, SInt, SBool)):
        if isinstance(obj, SStr):
            return obj[key]
        key = core.engine().concretize(key)
    elif isinstance(key, slice) and (
        isinstance(key.start, SInt) or isinstance(key.stop, SInt) or isinstance(key.step, SInt)
    ):
        e = core.engine()
        key = slice(e.concretize(key.start), e.concretize(key.stop), e.concretize(key.step))
    return obj[key]


def rt_is(a, b):
    if isinstance(a, SBool) and isinstance(b, bool):
        return a if b else b_not(a)
    if isinstance(b, SBool) and isinstance(a, bool):
        return b if a else b_not(b)
    if isinstance(a, (SStr, SInt)) and isinstance(b, (SStr, SInt, str, int)) and not isinstance(b, bool):
        if a is b:
            return True
        raise Unsupported("identity comparison of symbolic values")
    return a is b


def rt_is_not(a, b):
    return b_not(rt_is(a, b)) if True else None


def rt_any(it):
    for x in it:
        if x:
            return True
    return False


def rt_all(it):
    for x in it:
        if not x:
            return False
    return True


def rt_not(x):
    if isinstance(x, SBool):
        return b_not(x)
    return not x


_RT_FUNCS = {
    rt_in, rt_not_in, rt_int, rt_chr, rt_ord, rt_isinstance, rt_issubclass, rt_type, rt_str, rt_bytes, rt_bool,
    rt_len, rt_repr, rt_fmt, rt_is, rt_is_not, rt_fstr, rt_mod, rt_call, rt_callm, rt_getitem, rt_any, rt_all, rt_enter,
}

_BUILTIN_DISPATCH = {int: rt_int, chr: rt_chr, ord: rt_ord, isinstance: rt_isinstance, issubclass: rt_issubclass, str: rt_str, bool: rt_bool, repr: rt_repr,
                     type: rt_type, bytes: rt_bytes, any: rt_any, all: rt_all}
_BUILTIN_KINDS = (type, type(len))

RT_GLOBALS = {
    "_ms_in": rt_in,
    "_ms_is": rt_is,
    "_ms_is_not": rt_is_not,
    "_ms_not_in": rt_not_in,
    "_ms_call": rt_call,
    "_ms_callm": rt_callm,
    "_ms_fstr": rt_fstr,
    "_ms_fmt": rt_fmt,
    "_ms_getitem": rt_getitem,
    "_ms_mod": rt_mod,
    "_ms_enter": rt_enter,
}
