"""symx core: symbolic values (SBool, SInt), the path engine and its solver protocol.

Exploration is depth-first over the decision tree of the *real* (instrumented)
code by deterministic re-execution.  One incremental z3 solver per task; push/pop
mirror the decision stack.  Every fork is decided by z3, every obligation is
discharged by z3 (`check(PC and not phi)`).

Nothing in here knows about MyST-Parser.
"""
from __future__ import annotations

import os
import signal
import sys
import time

import z3

MAXCP = 0x10FFFF


class EngineSignal(BaseException):
    """Control-flow signals.  BaseException so that `except Exception` in the code
    under test cannot swallow them."""


class PathAbort(EngineSignal):
    """The path condition became infeasible (assume failed)."""


class Unsupported(EngineSignal):
    """Operation outside the symbolic model: path is INCONCLUSIVE (never success)."""


class StepBudget(EngineSignal):
    """Fork/step budget of a path exhausted: candidate non-termination."""


class Nondeterminism(EngineSignal):
    """Re-execution of the body took a different decision sequence than recorded: harness error."""


def _show(c):
    if type(c) is SAtom:
        return "atom(cp%d in %s)" % (c.cid, str(c.ivs)[:80])
    return str(c.e if isinstance(c, SBool) else c)[:160]


class Deadline(EngineSignal):
    """Wall-clock budget of the task exhausted."""


ENGINE: "Engine | None" = None


def _watchdog(signum, frame):
    raise StepBudget()


def engine() -> "Engine":
    if ENGINE is None:
        raise RuntimeError("no active symx engine")
    return ENGINE


# --------------------------------------------------------------------- values


def _zb(o):
    if isinstance(o, SBool):
        return o.e
    return z3.BoolVal(bool(o))


def mk_bool(e):
    """z3 Bool term | python bool -> python bool if decided syntactically else SBool."""
    if isinstance(e, bool):
        return e
    if z3.is_true(e):
        return True
    if z3.is_false(e):
        return False
    e = z3.simplify(e)
    if z3.is_true(e):
        return True
    if z3.is_false(e):
        return False
    return SBool(e)


def mk_int(e):
    if isinstance(e, int):
        return e
    if z3.is_int_value(e):
        return e.as_long()
    e = z3.simplify(e)
    if z3.is_int_value(e):
        return e.as_long()
    return SInt(e)


class SBool:
    __slots__ = ("_e",)

    def __init__(self, e):
        self._e = e

    @property
    def e(self):
        return self._e

    def __bool__(self):
        return ENGINE.branch(self._e)

    def __and__(self, o):
        if o is True:
            return self
        if o is False:
            return False
        return mk_bool(z3.And(self.e, _zb(o)))

    __rand__ = __and__

    def __or__(self, o):
        if o is False:
            return self
        if o is True:
            return True
        return mk_bool(z3.Or(self.e, _zb(o)))

    __ror__ = __or__

    def __invert__(self):
        return b_not(self)

    def __eq__(self, o):
        if isinstance(o, (bool, SBool)):
            return mk_bool(self.e == _zb(o))
        return NotImplemented

    def __ne__(self, o):
        if isinstance(o, (bool, SBool)):
            return mk_bool(self.e != _zb(o))
        return NotImplemented

    def __hash__(self):
        return hash(bool(self))

    def __repr__(self):
        return "<sym-bool>"

    def __int__(self):
        return mk_int(z3.If(self.e, 1, 0))

    def __add__(self, o):
        return mk_int(z3.If(self.e, 1, 0)) + o

    __radd__ = __add__


class SAtom(SBool):
    """Unary code-point atom `cp in ivs` over a leaf code point; its z3 term is built lazily
    (only when the interval pre-solver cannot decide it or an obligation needs it)."""

    __slots__ = ("cid", "ivs", "z", "key")
    _n = 0

    def __init__(self, cid, ivs, z):
        self._e = None
        self.cid = cid
        self.ivs = ivs
        self.z = z
        SAtom._n += 1
        self.key = -SAtom._n

    @property
    def e(self):
        e = self._e
        if e is None:
            z = self.z
            alts = [(z == lo) if lo == hi else z3.And(z >= lo, z <= hi) for lo, hi in self.ivs]
            e = z3.BoolVal(False) if not alts else (z3.Or(*alts) if len(alts) > 1 else alts[0])
            self._e = e
            ATOM_BY_EID[e.get_id()] = self
        return e

    def __bool__(self):
        return ENGINE.branch(self)


ATOM_BY_EID: dict = {}


class SNeg(SBool):
    """Negation of an SAtom (keeps the atom visible to the interval pre-solver)."""

    __slots__ = ("inner",)

    def __init__(self, inner):
        self._e = None
        self.inner = inner

    @property
    def e(self):
        if self._e is None:
            self._e = z3.Not(self.inner.e)
        return self._e

    def __bool__(self):
        return not ENGINE.branch(self.inner)

    def __invert__(self):
        return self.inner


def b_and(*xs):
    conj = []
    for x in xs:
        if x is False:
            return False
        if x is True:
            continue
        conj.append(x.e if isinstance(x, SBool) else x)
    if not conj:
        return True
    return mk_bool(z3.And(*conj) if len(conj) > 1 else conj[0])


def b_or(*xs):
    alts = []
    for x in xs:
        if x is True:
            return True
        if x is False:
            continue
        alts.append(x.e if isinstance(x, SBool) else x)
    if not alts:
        return False
    return mk_bool(z3.Or(*alts) if len(alts) > 1 else alts[0])


def b_not(x):
    if isinstance(x, bool):
        return not x
    if type(x) is SAtom:
        return SNeg(x)
    if type(x) is SNeg:
        return x.inner
    return mk_bool(z3.Not(x.e))


def b_implies(a, b):
    return b_or(b_not(a), b)


def b_iff(a, b):
    if isinstance(a, bool) and isinstance(b, bool):
        return a == b
    return mk_bool(_zb(a) == _zb(b))


def _zi(v):
    if isinstance(v, SInt):
        return v.e
    if isinstance(v, bool):
        return int(v)
    if isinstance(v, SBool):
        return z3.If(v.e, 1, 0)
    return v


class SInt:
    __slots__ = ("e",)

    def __init__(self, e):
        self.e = e

    def _bin(self, o, f):
        if isinstance(o, (int, SInt, SBool)):
            return mk_int(f(self.e, _zi(o)))
        return NotImplemented

    def __add__(self, o):
        return self._bin(o, lambda a, b: a + b)

    __radd__ = __add__

    def __sub__(self, o):
        return self._bin(o, lambda a, b: a - b)

    def __rsub__(self, o):
        return self._bin(o, lambda a, b: b - a)

    def __mul__(self, o):
        if isinstance(o, (int, SInt)):
            return self._bin(o, lambda a, b: a * b)
        if isinstance(o, (str, list, tuple)) or hasattr(o, "cps"):
            return o * ENGINE.concretize_int(self)
        return NotImplemented

    __rmul__ = __mul__

    def __floordiv__(self, o):
        if isinstance(o, int) and o > 0:
            return mk_int(self.e / o)
        raise Unsupported("SInt // non-positive-constant")

    def __mod__(self, o):
        if isinstance(o, int) and o > 0:
            return mk_int(self.e % o)
        raise Unsupported("SInt % non-positive-constant")

    def __neg__(self):
        return mk_int(-self.e)

    def __pos__(self):
        return self

    def __abs__(self):
        return mk_int(z3.If(self.e >= 0, self.e, -self.e))

    def _cmp(self, o, f):
        if isinstance(o, (int, SInt)):
            return mk_bool(f(self.e, _zi(o)))
        return NotImplemented

    def __eq__(self, o):
        r = self._cmp(o, lambda a, b: a == b)
        return False if r is NotImplemented else r

    def __ne__(self, o):
        r = self._cmp(o, lambda a, b: a != b)
        return True if r is NotImplemented else r

    def __lt__(self, o):
        return self._cmp(o, lambda a, b: a < b)

    def __le__(self, o):
        return self._cmp(o, lambda a, b: a <= b)

    def __gt__(self, o):
        return self._cmp(o, lambda a, b: a > b)

    def __ge__(self, o):
        return self._cmp(o, lambda a, b: a >= b)

    def __bool__(self):
        return ENGINE.branch(self.e != 0)

    def __hash__(self):
        return hash(ENGINE.concretize_int(self))

    def __index__(self):
        return ENGINE.concretize_int(self)

    def __int__(self):
        return ENGINE.concretize_int(self)

    def __repr__(self):
        return "<sym-int>"

    def __str__(self):
        return str(ENGINE.concretize_int(self))

    def __format__(self, spec):
        return format(ENGINE.concretize_int(self), spec)


def s_ite(c, a, b):
    """if-then-else over ints without forking."""
    if isinstance(c, bool):
        return a if c else b
    return mk_int(z3.If(c.e, _zi(a), _zi(b)))


# --------------------------------------------------------------------- engine



# ---------------------------------------------------- interval pre-solver support

ATOM_META: dict = {}   # z3 ast id of an atom -> (cp id, interval tuple): atom == "cp in ivs"
CP_OF_Z: dict = {}     # z3 ast id of a leaf code-point constant -> cp id
CP_ZVAR: dict = {}     # cp id -> z3 constant
_IV_CACHE: dict = {}
_VARS_CACHE: dict = {}


def iv_split(dom, ivs):
    """(dom & ivs, dom - ivs) for sorted disjoint interval tuples."""
    k = (dom, ivs)
    r = _IV_CACHE.get(k)
    if r is not None:
        return r
    inter = []
    diff = []
    j = 0
    n = len(ivs)
    for lo, hi in dom:
        cur = lo
        while j < n and ivs[j][1] < cur:
            j += 1
        k2 = j
        while k2 < n and ivs[k2][0] <= hi:
            a, b = ivs[k2]
            a2 = max(a, cur)
            b2 = min(b, hi)
            if a2 > cur:
                diff.append((cur, a2 - 1))
            inter.append((a2, b2))
            cur = b2 + 1
            if b > hi:
                break
            k2 += 1
        if cur <= hi:
            diff.append((cur, hi))
    r = (tuple(inter), tuple(diff))
    if len(_IV_CACHE) > 200000:
        _IV_CACHE.clear()
    _IV_CACHE[k] = r
    return r


def cps_in(e):
    """ids of leaf code-point constants occurring in z3 expr e."""
    if isinstance(e, SBool):
        if type(e) is SAtom:
            return {e.cid}
        e = e.e
    eid = e.get_id()
    r = _VARS_CACHE.get(eid)
    if r is not None:
        return r[0]
    out = set()
    stack = [e]
    seen = set()
    while stack:
        x = stack.pop()
        i = x.get_id()
        if i in seen:
            continue
        seen.add(i)
        c = CP_OF_Z.get(i)
        if c is not None:
            out.add(c)
            continue
        if z3.is_app(x):
            stack.extend(x.children())
    if len(_VARS_CACHE) > 200000:
        _VARS_CACHE.clear()
    _VARS_CACHE[eid] = (out, e)
    return out


class Candidate:
    """A candidate counterexample: obligation label + model-derived witness."""

    __slots__ = ("label", "witness", "detail")

    def __init__(self, label, witness, detail=""):
        self.label, self.witness, self.detail = label, witness, detail


class PathStop(EngineSignal):
    """Raised by Engine.fail() to end the path after recording a candidate."""


class Engine:
    """One exploration task = one decision (sub)tree under a fixed prefix."""

    def __init__(self, max_forks=4000, concretize_cap=64, solver_timeout_ms=20000, max_steps=60000, path_timeout=30):
        self.max_steps = max_steps
        self.steps = 0
        self.path_timeout = path_timeout
        self.solver = z3.Solver()
        self.solver.set("timeout", solver_timeout_ms)
        # trace entries: [expr, taken, pending_other(bool), pushed(bool), other_model, payload]
        self.trace = []
        self.depth = 0
        self.model = None
        self.max_forks = max_forks
        self.forks = 0
        self.concretize_cap = concretize_cap
        self.stats = dict(paths=0, checks=0, solver_s=0.0, unsupported=0, aborted=0,
                          budget=0, obligations=0, discharged=0, forks=0, forced=0)
        self.witness_fn = None  # model -> JSON-able witness
        self.candidates = []
        self.notes = {}  # free-form counters for the harness (non-triviality etc.)
        self.unsupported_reasons = {}
        self.deadline = None
        self.hard_deadline = None
        self.prefix = ()
        self.base_checked = False
        # interval-domain pre-solver for unary code-point atoms (see branch)
        self.base_dom = {}      # cp id -> interval tuple (from new_str)
        self.dom = {}
        self.tainted = set()    # cp ids that occur in a non-unary path constraint
        self.base_tainted = set()
        self.all_tainted = False
        self.known = {}         # z3 ast id -> bool, decisions already taken on this path
        self.paranoid = int(os.environ.get("SYMX_PARANOID", "0") or 0)
        self.shortcuts = 0

    # -- solver helpers
    def _check(self, *assumptions):
        t = time.perf_counter()
        r = self.solver.check(*assumptions)
        dt = time.perf_counter() - t
        self.stats["solver_s"] += dt
        self.stats["checks"] += 1
        if r == z3.unknown:
            self.stats["unknown"] = self.stats.get("unknown", 0) + 1
        if dt > 2.0:
            self.stats["slow_checks"] = self.stats.get("slow_checks", 0) + 1
            if os.environ.get("SYMX_DEBUG"):
                print("SLOW CHECK %.1fs -> %s: %s" % (dt, r, [str(a)[:300] for a in assumptions]), file=sys.stderr)
        return r

    def assume_base(self, e, unary_cp=None, ivs=None):
        """Constrain inputs.  Must be called before the first decision.
        unary_cp/ivs: the constraint is exactly `cp in ivs` (registers the base domain)."""
        assert not self.trace and self.depth == 0, "assume_base after exploration started"
        if isinstance(e, SBool):
            e = e.e
        if isinstance(e, bool):
            e = z3.BoolVal(e)
        self.solver.add(e)
        if unary_cp is not None:
            old = self.base_dom.get(unary_cp)
            self.base_dom[unary_cp] = ivs if old is None else iv_split(old, ivs)[0]
        else:
            for cid in cps_in(e):
                self.base_tainted.add(cid)

    def assume(self, cond):
        """Path-level assumption placed before the code it constrains."""
        if cond is True:
            return
        if cond is False:
            raise PathAbort("assume(False)")
        if not self.branch(cond if type(cond) is SAtom else (cond.e if isinstance(cond, SBool) else cond), assume=True):
            raise PathAbort("assumption not met")

    def _get_model(self):
        if self.model is None:
            r = self._check()
            if r == z3.unsat:
                raise PathAbort("infeasible path")
            if r == z3.unknown:
                raise Unsupported("solver unknown (path feasibility)")
            self.model = self.solver.model()
        return self.model

    def _learn(self, c, key, taken, meta, forked):
        """Record the outcome of a decision for the rest of this path."""
        self.known[key] = (taken, c)
        if meta is not None:
            cid, ivs = meta
            cur = self.dom.get(cid)
            if cur is not None:
                inter, diff = iv_split(cur, ivs)
                self.dom[cid] = inter if taken else diff
        elif forked:
            for cid in cps_in(c):
                self.tainted.add(cid)

    def branch(self, c, assume=False, payload=None) -> bool:
        """c: z3 BoolRef | SAtom | bool."""
        if isinstance(c, bool):
            return c
        self.steps += 1
        if self.steps > self.max_steps:
            raise StepBudget()
        if (self.steps & 1023) == 0 and self.hard_deadline is not None and time.time() > self.hard_deadline:
            raise Deadline()
        if type(c) is SAtom:
            atom = c
        else:
            eid = c.get_id()
            v = self.known.get(eid)
            if v is not None:
                return v[0]
            if not assume and z3.is_not(c):
                return not self.branch(c.arg(0), payload=payload)
            # NOTE: a generic expression is never re-interpreted as an atom, even if it is
            # structurally identical to one: whether an atom's term has been built already depends
            # on history (laziness), and decisions must not depend on that (determinism of re-execution
            # and of prefix hand-over between worker processes).
            atom = None
            key = eid
            meta = None
        dom_fork = False
        if atom is not None:
            key = atom.key
            v = self.known.get(key)
            if v is not None:
                return v[0]
            meta = (atom.cid, atom.ivs)
            c = atom
            if not assume:
                cur = self.dom.get(atom.cid)
                if cur is not None:
                    inter, diff = iv_split(cur, atom.ivs)
                    if not inter or not diff:
                        val = bool(inter)
                        if self.paranoid:
                            self._paranoid(atom.e, val)
                        self.known[key] = (val, c)
                        self.shortcuts += 1
                        return val
                    if atom.cid not in self.tainted and not self.all_tainted:
                        dom_fork = True
        return self._branch_general(c, key, meta, assume, payload, dom_fork)

    def _constraint(self, c, taken, meta):
        """The z3 constraint asserted for a decision.  For unary code-point atoms the resulting
        domain is asserted when that is more compact than the character-class disjunction; under
        the path condition both are equivalent."""
        if meta is not None:
            cid, ivs = meta
            cur = self.dom.get(cid)
            z = CP_ZVAR.get(cid)
            if cur is not None and z is not None:
                inter, diff = iv_split(cur, ivs)
                nd = inter if taken else diff
                if len(nd) <= max(6, len(ivs)):
                    alts = [(z == lo) if lo == hi else z3.And(z >= lo, z <= hi) for lo, hi in nd]
                    if not alts:
                        return z3.BoolVal(False)
                    return z3.Or(*alts) if len(alts) > 1 else alts[0]
        e = c.e if isinstance(c, SBool) else c
        return e if taken else z3.Not(e)

    def _paranoid(self, e, expect, both=False):
        self.paranoid_checks = getattr(self, "paranoid_checks", 0) + 1
        if both:
            ok = self._check(e) == z3.sat and self._check(z3.Not(e)) == z3.sat
        else:
            ok = self._check(z3.Not(e) if expect else e) == z3.unsat
        if not ok:
            self.stats["engine_inconsistency"] = self.stats.get("engine_inconsistency", 0) + 1
            raise Nondeterminism("symx: interval pre-solver disagrees with z3 on %s (expected %s)" % (str(e)[:200], "both" if both else expect))

    def _branch_general(self, c, key, meta, assume, payload, dom_fork=False) -> bool:
        d = self.depth
        if d < len(self.trace):
            self.depth = d + 1
            t = self.trace[d]
            t0 = t[0]
            if t0 is not c:
                k0 = t0.key if type(t0) is SAtom else (t0.e.get_id() if isinstance(t0, SBool) else t0.get_id())
                if k0 != key:
                    raise Nondeterminism("re-execution diverged at decision %d: %s vs %s" % (d, _show(t0), _show(c)))
            self._learn(c, key, t[1], meta, t[3])
            return t[1]
        self.forks += 1
        if self.forks > self.max_forks:
            raise StepBudget()
        if self.hard_deadline is not None and (self.forks & 63) == 0 and time.time() > self.hard_deadline:
            raise Deadline()
        if d < len(self.prefix):
            # following a prefix handed over by the coordinator
            code = self.prefix[d]
            if isinstance(code, tuple):
                code = code[0]
            taken = bool(code & 1)
            forked = bool(code & 2)
            if self.paranoid >= 3 and not assume:
                e_ = c.e if isinstance(c, SBool) else c
                rt_ = self._check(e_ if taken else z3.Not(e_))
                ro_ = self._check(z3.Not(e_) if taken else e_)
                if rt_ != z3.sat or (ro_ == z3.sat) != forked:
                    self.stats["engine_inconsistency"] = self.stats.get("engine_inconsistency", 0) + 1
                    print("PARANOID3: prefix decision %d (%s) code=%r: taken side %s, other side %s; trace so far %r" % (d, _show(c), code, rt_, ro_, self._codes(len(self.trace))), file=sys.stderr, flush=True)
            if forked:
                self.solver.push()
                self.solver.add(self._constraint(c, taken, meta))
            self.trace.append([c, taken, False, forked, None, payload, meta, None])
            self.depth = d + 1
            self.model = None
            self._learn(c, key, taken, meta, forked)
            return taken
        if dom_fork:
            # both sides feasible by the (exact, untainted) interval domain: fork without a solver call
            if self.paranoid:
                self._paranoid(c.e, None, both=True)
            self.shortcuts += 1
            neg = self._constraint(c, False, meta)
            self.solver.push()
            self.solver.add(self._constraint(c, True, meta))
            self.trace.append([c, True, True, True, None, payload, meta, neg])
            self.stats["forks"] += 1
            self.depth = d + 1
            self.model = None
            self._learn(c, key, True, meta, True)
            return True
        e = c.e if isinstance(c, SBool) else c
        if assume:
            r = self._check(e)
            if r == z3.unknown:
                raise Unsupported("solver unknown (assume)")
            if r == z3.unsat:
                raise PathAbort("assumption infeasible")
            self.solver.push()
            self.solver.add(e)
            self.trace.append([c, True, False, True, None, payload, meta, None])
            self.depth = d + 1
            self.model = None
            self._learn(c, key, True, meta, True)
            return True
        m = self._get_model()
        mv = m.eval(e, model_completion=True)
        taken = z3.is_true(mv)
        if not taken and not z3.is_false(mv):
            r = self._check(e)
            taken = r == z3.sat
        other = z3.Not(e) if taken else e
        r = self._check(other)
        if r == z3.unknown:
            raise Unsupported("solver unknown (fork)")
        if r == z3.sat:
            om = self.solver.model()
            neg = self._constraint(c, not taken, meta)
            self.solver.push()
            self.solver.add(self._constraint(c, taken, meta))
            self.trace.append([c, taken, True, True, om, payload, meta, neg])
            self.stats["forks"] += 1
        else:
            if self.paranoid >= 2:
                s2 = z3.Solver()
                s2.add(*self.solver.assertions())
                s2.add(other)
                r2 = s2.check()
                if r2 != z3.unsat:
                    print("PARANOID: incremental solver says unsat, fresh solver says %s for %s; assertions=%d" % (r2, str(other)[:200], len(self.solver.assertions())), file=sys.stderr, flush=True)
                    self.stats["engine_inconsistency"] = self.stats.get("engine_inconsistency", 0) + 1
            self.trace.append([c, taken, False, False, None, payload, meta, None])
            self.stats["forced"] += 1
        self.depth = d + 1
        self._learn(c, key, taken, meta, r == z3.sat)
        return taken

    # -- concretisation by exhaustive case split
    def concretize_int(self, v) -> int:
        if isinstance(v, int):
            return v
        e = v.e if isinstance(v, SInt) else v
        for _ in range(self.concretize_cap):
            d = self.depth
            if d < len(self.trace):
                val = self.trace[d][5]  # replay: the value chosen when this decision was first made
            elif d < len(self.prefix):
                val = self.prefix[d][1]
            else:
                m = self._get_model()
                val = m.eval(e, model_completion=True).as_long()
            ex = e == val
            if self._branch_general(ex, ex.get_id(), None, False, val):
                return val
        raise Unsupported("concretize cap exceeded")

    def concretize_bool(self, v) -> bool:
        return bool(v)

    def concretize(self, v):
        """Concretise SInt / SBool / SStr (and shallow containers of them)."""
        from .sstr import SStr

        if isinstance(v, SStr):
            return v.concretize()
        if isinstance(v, SInt):
            return self.concretize_int(v)
        if isinstance(v, SBool):
            return bool(v)
        if isinstance(v, list):
            return [self.concretize(x) for x in v]
        if isinstance(v, tuple):
            return tuple(self.concretize(x) for x in v)
        if isinstance(v, dict):
            return {self.concretize(k): self.concretize(x) for k, x in v.items()}
        return v

    # -- obligations
    def witness(self, model=None):
        if model is None:
            model = self._get_model()
        return self.witness_fn(model) if self.witness_fn else None

    def require(self, cond, label, detail="", stop=True):
        """Obligation: `cond` must hold for every input on this path.  With stop=False a failing
        obligation is recorded as a candidate and the path continues under the assumption that it holds
        (used where a known defect would otherwise hide the obligations that follow)."""
        if not stop:
            try:
                return self.require(cond, label, detail)
            except PathStop:
                if isinstance(cond, SBool):
                    self.assume(cond)
                return False
        self.stats["obligations"] += 1
        if isinstance(cond, SBool):
            r = self._check(z3.Not(cond.e))
            if r == z3.unsat:
                self.stats["discharged"] += 1
                return True
            if r == z3.unknown:
                raise Unsupported("solver unknown (obligation %s)" % label)
            m = self._fresh_confirm(z3.Not(cond.e))
            if os.environ.get("SYMX_DEBUG"):
                detail += " PREFIX=%r START_PREFIX_LEN=%d" % (self._codes(len(self.trace)), len(self.prefix))
            self.candidates.append(Candidate(label, self.witness(m), detail))
            raise PathStop()
        if cond:
            self.stats["discharged"] += 1
            return True
        if os.environ.get("SYMX_DEBUG"):
            detail += " PREFIX=%r START_PREFIX_LEN=%d" % (self._codes(len(self.trace)), len(self.prefix))
        m = self._fresh_confirm()
        self.candidates.append(Candidate(label, self.witness(m), detail))
        raise PathStop()

    def _fresh_confirm(self, extra=None):
        """Re-decide the path condition (plus `extra`) with a fresh, non-incremental solver and
        return its model; guards candidates against incremental-solver artefacts."""
        s2 = z3.Solver()
        s2.set("timeout", 30000)
        s2.add(*self.solver.assertions())
        if extra is not None:
            s2.add(extra)
        r = s2.check()
        self.stats["checks"] += 1
        if r == z3.sat:
            return s2.model()
        if r == z3.unknown:
            raise Unsupported("fresh solver unknown while confirming a candidate")
        self.stats["engine_inconsistency"] = self.stats.get("engine_inconsistency", 0) + 1
        raise Unsupported("incremental and fresh solver disagree on the feasibility of a candidate path")

    def fail(self, label, detail=""):
        """Unconditional failure of this path class (e.g. unexpected exception)."""
        self.stats["obligations"] += 1
        m = self._fresh_confirm()
        if os.environ.get("SYMX_DEBUG"):
            detail += " PREFIX=%r START_PREFIX_LEN=%d" % (self._codes(len(self.trace)), len(self.prefix))
        self.candidates.append(Candidate(label, self.witness(m), detail))
        raise PathStop()

    def passed(self, n=1):
        """Record n obligations that were evaluated on concrete (case-split) values and hold."""
        self.stats["obligations"] += n
        self.stats["discharged"] += n

    def cp_value(self, cp_id):
        """The single value of a leaf code point if the path has pinned it, else None."""
        d = self.dom.get(cp_id)
        if d is not None and len(d) == 1 and d[0][0] == d[0][1]:
            return d[0][0]
        return None

    def note(self, key, n=1):
        self.notes[key] = self.notes.get(key, 0) + n

    def eval_model(self, model, v):
        from .sstr import SStr

        if isinstance(v, SStr):
            return v.eval(model)
        if isinstance(v, SInt):
            return model.eval(v.e, model_completion=True).as_long()
        if isinstance(v, SBool):
            return z3.is_true(model.eval(v.e, model_completion=True))
        if isinstance(v, (list, tuple)):
            return [self.eval_model(model, x) for x in v]
        if isinstance(v, dict):
            return {str(self.eval_model(model, k)): self.eval_model(model, x) for k, x in v.items()}
        return v

    # -- exploration
    def explore(self, body, prefix=(), deadline=None, max_paths=None, on_path=None, hard_deadline=None):
        """Run `body` once per path under `prefix`.

        Returns (exhausted: bool, leftover_prefixes: list[tuple]).
        If the deadline / max_paths is hit, the unexplored alternatives are returned
        as prefixes (so a coordinator can hand them to other workers).
        """
        global ENGINE
        ENGINE = self
        self.prefix = tuple(prefix)
        self.deadline = deadline
        self.hard_deadline = hard_deadline
        if not self.base_checked:
            r = self._check()
            if r != z3.sat:
                raise RuntimeError("base assumptions unsatisfiable or unknown: vacuous harness")
            self.model = self.solver.model()
            self.base_checked = True
        start_paths = self.stats["paths"]
        while True:
            self.depth = 0
            self.forks = 0
            self.steps = 0
            self.known = {}
            self.dom = dict(self.base_dom)
            self.tainted = set(self.base_tainted)
            kind, val = "ok", None
            if self.path_timeout:
                signal.signal(signal.SIGALRM, _watchdog)
                signal.setitimer(signal.ITIMER_REAL, self.path_timeout)
            try:
                try:
                    val = body()
                finally:
                    if self.path_timeout:
                        signal.setitimer(signal.ITIMER_REAL, 0)
            except PathStop:
                kind = "stop"
            except PathAbort:
                self.stats["aborted"] += 1
                kind = "abort"
            except Unsupported as u:
                self.stats["unsupported"] += 1
                k = str(u)
                self.unsupported_reasons[k] = self.unsupported_reasons.get(k, 0) + 1
                if len(self.unsupported_reasons) <= 5 and self.unsupported_reasons[k] == 1:
                    try:
                        self.unsupported_reasons[k + " @witness"] = repr(self.witness())[:300]
                    except BaseException:
                        pass
                kind = "unsupported"
            except StepBudget:
                self.stats["budget"] += 1
                kind = "budget"
                try:
                    self.candidates.append(Candidate("termination", self.witness(), "fork budget exhausted"))
                except BaseException:
                    pass
            except Deadline:
                kind = "deadline"
            except Exception as exc:  # escaped the harness body: candidate, decided by replay
                kind = "exc"
                val = exc
                import traceback

                tb = traceback.extract_tb(exc.__traceback__)
                where = "; ".join("%s:%d" % (f.name, f.lineno) for f in tb[-3:])
                try:
                    self.stats["obligations"] += 1
                    self.candidates.append(
                        Candidate("uncaught:" + type(exc).__name__, self.witness(), "%s at %s" % (str(exc)[:200], where))
                    )
                except BaseException:
                    pass
            if kind != "deadline":
                self.stats["paths"] += 1
                if on_path:
                    on_path(kind, val, self)
            # backtrack
            if kind == "deadline" or (max_paths and self.stats["paths"] - start_paths >= max_paths) or (
                deadline is not None and time.time() > deadline
            ):
                return False, self._leftovers(include_current=(kind == "deadline"))
            while self.trace and not self.trace[-1][2]:
                ent = self.trace.pop()
                if ent[3]:
                    self.solver.pop()
            if len(self.trace) <= 0:
                return True, []
            ent = self.trace[-1]
            self.solver.pop()
            self.solver.push()
            ent[1] = not ent[1]
            ent[2] = False
            if ent[7] is not None:
                self.solver.add(ent[7])
            else:
                e0 = ent[0].e if isinstance(ent[0], SBool) else ent[0]
                self.solver.add(e0 if ent[1] else z3.Not(e0))
            self.model = ent[4]
            ent[4] = None

    def _codes(self, upto):
        out = []
        for t in self.trace[:upto]:
            c = int(t[1]) | (2 if t[3] else 0)
            out.append(c if t[5] is None else (c, t[5]))
        return out

    def _leftovers(self, include_current=False):
        """Prefixes for every unexplored alternative on the stack."""
        out = []
        for i, t in enumerate(self.trace):
            if t[2]:
                c = int(not t[1]) | 2
                out.append(tuple(self._codes(i) + [c if t[5] is None else (c, t[5])]))
        if include_current:
            out.append(tuple(self._codes(len(self.trace))))
        return out
