from __future__ import annotations

import argparse
import importlib
import os
import sys

sys.setrecursionlimit(20000)

if os.environ.get("SYMX_REPO"):
    # development aid: analyse another checkout (a scratch worktree with a seeded change) instead of /repo; never set by registered commands
    sys.path.insert(0, os.environ["SYMX_REPO"])

HARNESS = {
    "C07": "harness.c07_options",
}


def _discover():
    here = os.path.join(os.path.dirname(os.path.dirname(os.path.abspath(__file__))), "harness")
    for fn in sorted(os.listdir(here)):
        if fn.startswith("c") and fn.endswith(".py") and fn[1:3].isdigit():
            HARNESS["C" + fn[1:3]] = "harness." + fn[:-3]


def main():
    _discover()
    ap = argparse.ArgumentParser()
    ap.add_argument("prop")
    ap.add_argument("--tier", default=os.environ.get("VERIF_TIER", "quick"), choices=["quick", "thorough"])
    ap.add_argument("--family", default=None)
    ap.add_argument("--replay", default=None)
    ap.add_argument("--jobs", type=int, default=None)
    a = ap.parse_args()
    seed = int(os.environ.get("VERIF_SEED", "0") or 0)
    if a.prop not in HARNESS:
        print("no harness for", a.prop, file=sys.stderr)
        return 3
    H = importlib.import_module(HARNESS[a.prop])
    from . import driver

    if a.replay:
        return driver.run_replay_file(H, a.replay)
    return driver.run_check(H, a.tier, seed, only_family=a.family, jobs=a.jobs)


if __name__ == "__main__":
    sys.exit(main())
