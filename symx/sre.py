"""Symbolic regular expressions: a backtracking matcher over SStr that follows sre's
exploration order.  Patterns are parsed by the interpreter's own re._parser; the set
of code points accepted by every single-character item (literal under IGNORECASE,
class, category, '.') is derived from the REAL re module by compiling that item alone
and testing all 0x110000 code points once (cached) -- so the only trusted part is the
control structure below, which `selftest` compares against re on concrete strings.

For concrete subjects every call is delegated to the real re module.
"""
from __future__ import annotations

import re
import re._compiler as _C
import re._constants as K
import re._parser as P

from . import core
from .core import SBool, SInt, Unsupported, b_and, b_or, b_not
from .sstr import SStr, SBytes, CP, cp_in_ivs, lift, join, zt, _ivs, is_sym, MAXCP

_ITEM_IVS: dict = {}


def _item_intervals(op, av, flags):
    """Exact interval set of code points matched by a one-character item under flags."""
    fl = flags & (re.IGNORECASE | re.DOTALL | re.ASCII | re.UNICODE)
    key = (str(op), repr(av), int(fl))
    r = _ITEM_IVS.get(key)
    if r is not None:
        return r
    if op is K.LITERAL and not (fl & re.IGNORECASE):
        r = ((av, av),)
    elif op is K.NOT_LITERAL and not (fl & re.IGNORECASE):
        r = tuple(x for x in ((0, av - 1), (av + 1, MAXCP)) if x[0] <= x[1])
    elif op is K.ANY:
        r = ((0, MAXCP),) if fl & re.DOTALL else ((0, 9), (11, MAXCP))
    else:
        state = P.State()
        state.flags = fl | re.UNICODE if not (fl & re.ASCII) else fl
        sp = P.SubPattern(state, [(op, av)])
        rx = _C.compile(sp, state.flags)
        fm = rx.fullmatch
        r = _ivs(lambda c: fm(chr(c)) is not None)
    _ITEM_IVS[key] = r
    return r


def _word_ivs(flags):
    return _item_intervals(K.IN, [(K.CATEGORY, K.CATEGORY_WORD)], flags & ~re.IGNORECASE)


def _T(v):
    return v if isinstance(v, bool) else bool(v)


class Matcher:
    def __init__(self, pattern, flags=0):
        if isinstance(pattern, bytes):
            raise Unsupported("bytes regex")
        self.pattern = pattern
        self.tree = P.parse(pattern, flags)
        self.flags = self.tree.state.flags
        self.ngroups = self.tree.state.groups - 1
        self.groupindex = dict(self.tree.state.groupdict)

    def test(self, c, op, av):
        return cp_in_ivs(c, _item_intervals(op, av, self.flags))

    def seq(self, ops, idx, s, pos, groups):
        if idx == len(ops):
            yield pos, groups
            return
        op, av = ops[idx]
        for p2, g2 in self.one(op, av, s, pos, groups):
            yield from self.seq(ops, idx + 1, s, p2, g2)

    def _is_lb(self, c):
        return cp_in_ivs(c, ((10, 10),))

    def one(self, op, av, s, pos, groups):
        cps = s.cps
        n = len(cps)
        if op is K.LITERAL or op is K.NOT_LITERAL or op is K.ANY or op is K.IN:
            if pos < n and _T(self.test(cps[pos], op, av)):
                yield pos + 1, groups
        elif op is K.SUBPATTERN:
            gid, addf, delf, sub = av
            if addf or delf:
                raise Unsupported("inline flag groups")
            for p2, g2 in self.seq(sub.data, 0, s, pos, groups):
                if gid is not None:
                    g2 = dict(g2)
                    g2[gid] = (pos, p2)
                yield p2, g2
        elif op is K.BRANCH:
            for alt in av[1]:
                yield from self.seq(alt.data, 0, s, pos, groups)
        elif op is K.MAX_REPEAT or op is K.MIN_REPEAT:
            lo, hi, sub = av
            sub = sub.data
            greedy = op is K.MAX_REPEAT

            def rep(count, pos, groups):
                if not greedy and count >= lo:
                    yield pos, groups
                if hi is K.MAXREPEAT or count < hi:
                    for p2, g2 in self.seq(sub, 0, s, pos, groups):
                        if p2 == pos and count >= lo:
                            continue
                        yield from rep(count + 1, p2, g2)
                if greedy and count >= lo:
                    yield pos, groups

            yield from rep(0, pos, groups)
        elif op is K.AT:
            if av is K.AT_BEGINNING:
                if self.flags & re.MULTILINE:
                    ok = True if pos == 0 else self._is_lb(cps[pos - 1])
                else:
                    ok = pos == 0
            elif av is K.AT_BEGINNING_STRING:
                ok = pos == 0
            elif av is K.AT_END:
                if self.flags & re.MULTILINE:
                    ok = True if pos == n else self._is_lb(cps[pos])
                else:
                    ok = True if pos == n else (self._is_lb(cps[pos]) if pos == n - 1 else False)
            elif av is K.AT_END_STRING:
                ok = pos == n
            elif av is K.AT_BOUNDARY or av is K.AT_NON_BOUNDARY:
                w = _word_ivs(self.flags)
                a = cp_in_ivs(cps[pos - 1], w, "re_word") if pos > 0 else False
                b = cp_in_ivs(cps[pos], w, "re_word") if pos < n else False
                # boundary iff a != b
                a, b = _T(a), _T(b)
                ok = (a != b) if av is K.AT_BOUNDARY else (a == b)
                if n == 0:
                    ok = av is K.AT_NON_BOUNDARY and False
            else:
                raise Unsupported("regex anchor %s" % av)
            if _T(ok):
                yield pos, groups
        elif op is K.ASSERT or op is K.ASSERT_NOT:
            direction, sub = av
            found = False
            if direction >= 0:
                for _p, g2 in self.seq(sub.data, 0, s, pos, groups):
                    found = True
                    if op is K.ASSERT:
                        groups = g2
                    break
            else:
                lo, hi = sub.getwidth()
                if lo != hi:
                    raise Unsupported("variable-width look-behind")
                if pos - lo >= 0:
                    for p2, g2 in self.seq(sub.data, 0, s, pos - lo, groups):
                        if p2 == pos:
                            found = True
                            if op is K.ASSERT:
                                groups = g2
                            break
            if found == (op is K.ASSERT):
                yield pos, groups
        elif op is K.GROUPREF:
            span = groups.get(av)
            if span is None:
                return
            a, b = span
            ln = b - a
            if pos + ln <= n and _T(type(s)(cps[a:b])._eq(type(s)(cps[pos : pos + ln]))):
                yield pos + ln, groups
        else:
            raise Unsupported("regex op %s" % op)

    def match(self, s, pos=0, endpos=None):
        for p2, g in self.seq(self.tree.data, 0, s, pos, {}):
            return (pos, p2, g)
        return None

    def fullmatch(self, s, pos=0):
        n = len(s.cps)
        for p2, g in self.seq(self.tree.data, 0, s, pos, {}):
            if p2 == n:
                return (pos, p2, g)
        return None

    def search(self, s, pos=0):
        for start in range(pos, len(s.cps) + 1):
            m = self.match(s, start)
            if m is not None:
                return m
        return None


class SymMatch:
    def __init__(self, pat, s, start, end, groups):
        self.re = pat
        self.string = s
        self._start, self._end, self._g = start, end, groups
        self._n = pat.M.ngroups
        self.pos = 0
        self.endpos = len(s)

    def _idx(self, i):
        if isinstance(i, str):
            return self.re.M.groupindex[i]
        return i

    def start(self, i=0):
        i = self._idx(i)
        return self._start if i == 0 else self._g.get(i, (-1, -1))[0]

    def end(self, i=0):
        i = self._idx(i)
        return self._end if i == 0 else self._g.get(i, (-1, -1))[1]

    def span(self, i=0):
        return (self.start(i), self.end(i))

    def group(self, *idx):
        if not idx:
            idx = (0,)
        out = []
        for i in idx:
            a, b = self.span(i)
            out.append(None if a < 0 else self.string[a:b])
        return out[0] if len(out) == 1 else tuple(out)

    __getitem__ = group

    def groups(self, default=None):
        return tuple(self.group(i) if self.span(i)[0] >= 0 else default for i in range(1, self._n + 1))

    def groupdict(self, default=None):
        return {k: (self.group(v) if self.span(v)[0] >= 0 else default) for k, v in self.re.M.groupindex.items()}

    @property
    def lastindex(self):
        best = None
        for i in range(1, self._n + 1):
            if self.span(i)[0] >= 0:
                best = i
        return best

    def __bool__(self):
        return True


def _expand_template(tmpl, m):
    """Expand backrefs of a replacement template (concrete str)."""
    groups, literals = P.parse_template(tmpl, m.re._real) if hasattr(P, "parse_template") else (None, None)
    # python 3.12: parse_template returns a list: [literal, group, literal, group, ..., literal]
    parts = []
    tpl = P.parse_template(tmpl, m.re._real)
    for i, item in enumerate(tpl):
        if i % 2 == 0:
            if item:
                parts.append(item)
        else:
            g = m.group(item)
            if g is None:
                g = ""
            parts.append(g)
    return parts


class SymPattern:
    def __init__(self, pattern, flags=0, real=None):
        self._real = real if real is not None else re.compile(pattern, flags)
        self.pattern = self._real.pattern
        self.flags = self._real.flags
        self.groups = self._real.groups
        self.groupindex = self._real.groupindex
        self._M = None

    @property
    def M(self):
        if self._M is None:
            self._M = Matcher(self.pattern, self.flags & ~re.UNICODE)
        return self._M

    def _wrap(self, s, r):
        return None if r is None else SymMatch(self, s, r[0], r[1], r[2])

    def match(self, s, pos=0, endpos=None):
        if not isinstance(s, SStr):
            return self._real.match(s, pos) if endpos is None else self._real.match(s, pos, endpos)
        return self._wrap(s, self.M.match(s, pos))

    def search(self, s, pos=0, endpos=None):
        if not isinstance(s, SStr):
            return self._real.search(s, pos) if endpos is None else self._real.search(s, pos, endpos)
        return self._wrap(s, self.M.search(s, pos))

    def fullmatch(self, s, pos=0, endpos=None):
        if not isinstance(s, SStr):
            return self._real.fullmatch(s, pos) if endpos is None else self._real.fullmatch(s, pos, endpos)
        return self._wrap(s, self.M.fullmatch(s, pos))

    def finditer(self, s, pos=0):
        if not isinstance(s, SStr):
            yield from self._real.finditer(s, pos)
            return
        n = len(s)
        while pos <= n:
            r = self.M.search(s, pos)
            if r is None:
                return
            yield self._wrap(s, r)
            pos = r[1] if r[1] > r[0] else r[1] + 1

    def findall(self, s, pos=0):
        if not isinstance(s, SStr):
            return self._real.findall(s, pos)
        out = []
        for m in self.finditer(s, pos):
            if self.groups == 0:
                out.append(m.group(0))
            elif self.groups == 1:
                out.append(m.group(1) or "")
            else:
                out.append(tuple(g or "" for g in m.groups()))
        return out

    def subn(self, repl, s, count=0):
        if not isinstance(s, SStr) and not is_sym(repl):
            if callable(repl):
                # the callable may return symbolic strings: do it ourselves
                out = []
                last = 0
                k = 0
                for m in self._real.finditer(s):
                    if count and k >= count:
                        break
                    out.append(s[last : m.start()])
                    out.append(repl(m))
                    last = m.end()
                    k += 1
                out.append(s[last:])
                return join("", out), k
            return self._real.subn(repl, s, count)
        if not isinstance(s, SStr):
            s = SStr.of(s)
        out = []
        last = 0
        k = 0
        prev_end = -1
        for m in self.finditer(s):
            if count and k >= count:
                break
            if m.start() == m.end() == prev_end:
                # empty match adjacent to a previous match is skipped by sre
                continue
            out.append(s[last : m.start()])
            if callable(repl):
                out.append(repl(m))
            elif isinstance(repl, SStr):
                if _T(_contains_backslash(repl)):
                    raise Unsupported("symbolic replacement with backslash")
                out.append(repl)
            elif "\\" in repl:
                out.extend(_expand_template(repl, m))
            else:
                out.append(repl)
            last = m.end()
            prev_end = m.end()
            k += 1
        out.append(s[last:])
        return join("", out), k

    def sub(self, repl, s, count=0):
        return self.subn(repl, s, count)[0]

    def split(self, s, maxsplit=0):
        if not isinstance(s, SStr):
            return self._real.split(s, maxsplit)
        out = []
        last = 0
        k = 0
        for m in self.finditer(s):
            if maxsplit and k >= maxsplit:
                break
            out.append(s[last : m.start()])
            out.extend(m.groups())
            last = m.end()
            k += 1
        out.append(s[last:])
        return out


def _contains_backslash(s):
    from .sstr import contains

    return contains(s, "\\")


class SymReModule:
    """Stand-in for the `re` module inside instrumented copies."""

    MULTILINE = M = re.MULTILINE
    VERBOSE = X = re.VERBOSE
    IGNORECASE = I = re.IGNORECASE
    DOTALL = S = re.DOTALL
    ASCII = A = re.ASCII
    UNICODE = U = re.UNICODE
    Pattern = re.Pattern
    Match = re.Match
    error = re.error
    __name__ = "symx.sre"

    def __init__(self):
        self._cache = {}

    def compile(self, pattern, flags=0):
        if isinstance(pattern, SymPattern):
            return pattern
        if isinstance(pattern, re.Pattern):
            k = (pattern.pattern, pattern.flags)
            r = self._cache.get(k)
            if r is None:
                r = self._cache[k] = SymPattern(pattern.pattern, pattern.flags, real=pattern)
            return r
        if isinstance(pattern, SStr):
            # exhaustive case split over the (finitely many) feasible pattern texts
            pattern = pattern.concretize()
        k = (pattern, int(flags))
        r = self._cache.get(k)
        if r is None:
            r = self._cache[k] = SymPattern(pattern, int(flags))
        return r

    def search(self, p, s, flags=0):
        return self.compile(p, flags).search(s)

    def match(self, p, s, flags=0):
        return self.compile(p, flags).match(s)

    def fullmatch(self, p, s, flags=0):
        return self.compile(p, flags).fullmatch(s)

    def sub(self, p, repl, s, count=0, flags=0):
        return self.compile(p, flags).sub(repl, s, count)

    def subn(self, p, repl, s, count=0, flags=0):
        return self.compile(p, flags).subn(repl, s, count)

    def split(self, p, s, maxsplit=0, flags=0):
        return self.compile(p, flags).split(s, maxsplit)

    def findall(self, p, s, flags=0):
        return self.compile(p, flags).findall(s)

    def finditer(self, p, s, flags=0):
        return self.compile(p, flags).finditer(s)

    _SPECIAL = {i: "\\" + chr(i) for i in b"()[]{}?*+-|^$\\.&~# \t\n\r\v\f"}

    def escape(self, s):
        if not isinstance(s, SStr):
            return re.escape(s)
        # re.escape: str.translate over the special-character table; per character
        assert self._SPECIAL == re._special_chars_map, "re.escape table changed"
        out = []
        special = tuple(sorted(self._SPECIAL))
        from .sstr import ivs_of_chars

        ivs = ivs_of_chars(special)
        for c in s.cps:
            if _T(cp_in_ivs(c, ivs)):
                out.append(92)
            out.append(c)
        return lift(SStr(out))


SYMRE = SymReModule()


# ------------------------------------------------------------------ self test


def selftest(patterns, seed=0, max_len=4, extra_alpha="", n_random=400):
    """Differential test of the matcher against the real re module on concrete strings.

    patterns: iterable of (pattern, flags).  Returns (compared, mismatches:list).
    The subject strings are given to the matcher as *concrete* SStr objects (all
    code points ints), so the same code path as the symbolic run is exercised.
    """
    import itertools
    import random

    rnd = random.Random(seed)
    compared = 0
    bad = []
    for pat, fl in patterns:
        rx = re.compile(pat, fl)
        M = Matcher(pat, fl)
        alpha = _alphabet_of(pat) + extra_alpha
        alpha = "".join(dict.fromkeys(alpha))[:9]

        def sig_real(m):
            if m is None:
                return None
            return (m.span(), [m.span(i) for i in range(1, rx.groups + 1)])

        def sig_sym(r):
            if r is None:
                return None
            return ((r[0], r[1]), [r[2].get(i, (-1, -1)) for i in range(1, rx.groups + 1)])

        subjects = []
        short = alpha[:6]
        for L in range(0, max_len + 1):
            for tup in itertools.product(short, repeat=L):
                subjects.append("".join(tup))
        for _ in range(n_random):
            subjects.append("".join(rnd.choice(alpha) for _ in range(rnd.randint(max_len + 1, max_len + 8))))
        for t in subjects:
            s = SStr([ord(c) for c in t])
            for name in ("match", "search", "fullmatch"):
                compared += 1
                a = sig_real(getattr(rx, name)(t))
                try:
                    b = sig_sym(getattr(M, name)(s))
                except Unsupported as u:
                    bad.append((pat, name, t, "unsupported: %s" % u))
                    break
                if a != b:
                    bad.append((pat, name, t, a, b))
        if len(bad) > 20:
            break
    return compared, bad


def _alphabet_of(pat):
    """Characters worth testing for a pattern: its literals plus a few neighbours."""
    out = []
    tree = P.parse(pat)

    def walk(items):
        for op, av in items:
            if op in (K.LITERAL, K.NOT_LITERAL):
                out.append(chr(av))
            elif op is K.IN:
                for o2, a2 in av:
                    if o2 is K.LITERAL:
                        out.append(chr(a2))
                    elif o2 is K.RANGE:
                        out.append(chr(a2[0]))
                        out.append(chr(a2[1]))
                    elif o2 is K.CATEGORY:
                        out.extend(" a1_")
            elif op is K.SUBPATTERN:
                walk(av[3].data)
            elif op is K.BRANCH:
                for alt in av[1]:
                    walk(alt.data)
            elif op in (K.MAX_REPEAT, K.MIN_REPEAT):
                walk(av[2].data)
            elif op in (K.ASSERT, K.ASSERT_NOT):
                walk(av[1].data)
            elif op is K.ANY:
                out.extend("x\n")
            elif op is K.AT:
                out.extend("\n")

    walk(tree.data)
    s = "".join(dict.fromkeys(out))
    for extra in "a \n-:1":
        if extra not in s:
            s += extra
    return s
