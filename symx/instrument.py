"""AST instrumentation of the *current* source of a module, loaded as a private copy.

The rewrite only redirects operations a proxy object cannot intercept:
  a in b / a not in b          -> _ms_in / _ms_not_in
  f(args), obj.m(args)         -> _ms_call / _ms_callm   (str model dispatch, native-boundary concretisation)
  f-strings                    -> _ms_fstr(_ms_fmt(...))
  x[k] (load)                  -> _ms_getitem
  "fmt" % args                 -> _ms_mod
  builtins int/chr/ord/str/isinstance/... are shadowed in the copy's globals.
Annotations are left untouched.  Everything else is executed by CPython itself.
"""
from __future__ import annotations

import ast
import hashlib
import importlib.util
import sys
import types

from . import rt

SOURCES: dict = {}  # module name -> (path, sha256)


class Instrument(ast.NodeTransformer):
    def __init__(self, modname):
        self.modname = modname
        self.stack = []

    def visit_AnnAssign(self, node):
        if node.value is not None:
            node.value = self.visit(node.value)
        node.target = self.visit(node.target)
        return node

    def visit_arg(self, node):
        return node

    def visit_ClassDef(self, node):
        self.stack.append(node.name)
        self.generic_visit(node)
        self.stack.pop()
        return node

    def visit_FunctionDef(self, node):
        returns = node.returns
        node.returns = None
        self.stack.append(node.name)
        qual = self.modname + "." + ".".join(self.stack)
        self.generic_visit(node)
        self.stack.pop()
        node.returns = returns
        rt.FUNC_NAMES.append(qual)
        idx = len(rt.FUNC_NAMES) - 1
        enter = ast.Expr(ast.Call(ast.Name("_ms_enter", ast.Load()), [ast.Constant(idx)], []))
        body = node.body
        k = 0
        if body and isinstance(body[0], ast.Expr) and isinstance(getattr(body[0], "value", None), ast.Constant) and isinstance(body[0].value.value, str):
            k = 1
        node.body = body[:k] + [enter] + body[k:]
        return node

    visit_AsyncFunctionDef = visit_FunctionDef

    def visit_Compare(self, node):
        self.generic_visit(node)
        if len(node.ops) == 1 and isinstance(node.ops[0], (ast.Is, ast.IsNot)):
            fn = "_ms_is" if isinstance(node.ops[0], ast.Is) else "_ms_is_not"
            return ast.copy_location(
                ast.Call(ast.Name(fn, ast.Load()), [node.left, node.comparators[0]], []), node
            )
        if len(node.ops) == 1 and isinstance(node.ops[0], (ast.In, ast.NotIn)):
            fn = "_ms_in" if isinstance(node.ops[0], ast.In) else "_ms_not_in"
            return ast.copy_location(
                ast.Call(ast.Name(fn, ast.Load()), [node.left, node.comparators[0]], []), node
            )
        return node

    def visit_Call(self, node):
        self.generic_visit(node)
        if isinstance(node.func, ast.Name) and node.func.id in ("super", "locals", "globals", "vars", "_ms_enter"):
            return node
        if any(isinstance(a, ast.Starred) for a in node.args) or any(k.arg is None for k in node.keywords):
            star = True
        else:
            star = False
        if isinstance(node.func, ast.Attribute):
            if isinstance(node.func.value, ast.Call) and isinstance(node.func.value.func, ast.Name) and node.func.value.func.id == "super":
                return node
            return ast.copy_location(
                ast.Call(
                    ast.Name("_ms_callm", ast.Load()),
                    [node.func.value, ast.Constant(node.func.attr)] + node.args,
                    node.keywords,
                ),
                node,
            )
        return ast.copy_location(
            ast.Call(ast.Name("_ms_call", ast.Load()), [node.func] + node.args, node.keywords), node
        )

    def visit_JoinedStr(self, node):
        self.generic_visit(node)
        parts = []
        for v in node.values:
            if isinstance(v, ast.FormattedValue):
                spec = v.format_spec if v.format_spec is not None else ast.Constant("")
                parts.append(
                    ast.Call(ast.Name("_ms_fmt", ast.Load()), [v.value, ast.Constant(v.conversion), spec], [])
                )
            else:
                parts.append(v)
        return ast.copy_location(ast.Call(ast.Name("_ms_fstr", ast.Load()), parts, []), node)

    def visit_Subscript(self, node):
        self.generic_visit(node)
        if isinstance(node.ctx, ast.Load):
            return ast.copy_location(
                ast.Call(ast.Name("_ms_getitem", ast.Load()), [node.value, node.slice], []), node
            )
        return node

    def visit_BinOp(self, node):
        self.generic_visit(node)
        if isinstance(node.op, ast.Mod):
            return ast.copy_location(ast.Call(ast.Name("_ms_mod", ast.Load()), [node.left, node.right], []), node)
        return node


def instrument_source(src, filename, modname):
    tree = ast.parse(src, filename)
    tree = Instrument(modname).visit(tree)
    ast.fix_missing_locations(tree)
    return compile(tree, filename, "exec")


class Loaded:
    """Registry of instrumented module copies for one harness."""

    def __init__(self):
        self.mods = {}

    def __getitem__(self, name):
        return self.mods[name]


def load_instrumented(modnames, extra_globals=None, re_shim=True, shadow=None, using=None):
    """Load private, instrumented copies of `modnames` (in the given order) from their
    CURRENT source files.  While a later module in the list is executed, earlier copies
    stand in for the real modules in sys.modules, so `from .options import X` binds the
    instrumented X.  The real sys.modules entries are restored afterwards.

    `using`: already loaded copies (name -> module) that must stand in for their real modules while these load
    (so that e.g. a subclass defined here derives from the instrumented base class, not the real one).

    Returns dict name -> module copy.
    """
    from . import sre

    if isinstance(modnames, str):
        modnames = [modnames]
    out = {}
    saved = {}
    try:
        for uname, umod in (using or {}).items():
            if isinstance(umod, types.ModuleType) and umod.__name__ == "symx_copy." + uname:
                saved[uname] = sys.modules.get(uname)
                sys.modules[uname] = umod
                out[uname] = umod
        for modname in modnames:
            spec = importlib.util.find_spec(modname)
            if spec is None or not spec.origin or not spec.origin.endswith(".py"):
                raise ImportError("cannot find source of %s" % modname)
            data = open(spec.origin, "rb").read()
            SOURCES[modname] = (spec.origin, hashlib.sha256(data).hexdigest())
            code = instrument_source(data.decode("utf8"), spec.origin, modname)
            alias = "symx_copy." + modname
            mod = types.ModuleType(alias)
            mod.__file__ = spec.origin
            is_pkg = spec.submodule_search_locations is not None
            mod.__package__ = modname if is_pkg else modname.rpartition(".")[0]
            if is_pkg:
                mod.__path__ = list(spec.submodule_search_locations)
            mod.__dict__.update(rt.RT_GLOBALS)
            if extra_globals:
                mod.__dict__.update(extra_globals)
            if shadow and modname in shadow:
                mod.__dict__.update(shadow[modname])
            rt.INSTRUMENTED_MODULES.add(alias)
            sys.modules[alias] = mod
            # stand in for the real module while dependants load
            saved[modname] = sys.modules.get(modname)
            sys.modules[modname] = mod
            parent, _, child = modname.rpartition(".")
            exec(code, mod.__dict__)
            if re_shim and isinstance(mod.__dict__.get("re"), types.ModuleType) and mod.__dict__["re"].__name__ == "re":
                mod.__dict__["re"] = sre.SYMRE
            # `from package import submodule` binds the package attribute (the real module): rebind to the copy
            for gname, gval in list(mod.__dict__.items()):
                if isinstance(gval, types.ModuleType) and gval.__name__ in out and gval is not out[gval.__name__]:
                    mod.__dict__[gname] = out[gval.__name__]
            out[modname] = mod
        for uname in (using or {}):
            if uname not in modnames:
                out.pop(uname, None)
    finally:
        for modname, real in saved.items():
            if real is None:
                sys.modules.pop(modname, None)
            else:
                sys.modules[modname] = real
    return out


def source_hashes():
    return {k: {"path": v[0], "sha256": v[1]} for k, v in SOURCES.items()}
