"""Symbolic strings / bytes of concrete length over z3 Int code points.

Every operation is exact w.r.t. CPython (tables are derived from the running
interpreter) or raises Unsupported.  Operations that return a bool return an
SBool (no fork); operations whose *shape* depends on the content (split, find,
strip, ...) fork through SBool.__bool__.
"""
from __future__ import annotations

import z3

from . import core
from .core import SBool, SInt, Unsupported, mk_bool, mk_int, b_and, b_or, b_not

MAXCP = 0x10FFFF


class CP:
    """A symbolic code point: z3 Int term + small id (for atom caching)."""

    __slots__ = ("z", "id", "base", "off", "leaf", "hexsrc")
    _n = 0

    def __init__(self, z, base=None, off=0):
        self.z = z
        CP._n += 1
        self.id = CP._n
        # derived code point = base (a CP) + constant offset: atoms on it are rewritten
        # into atoms on the base, so that the interval pre-solver keeps deciding them
        if base is not None and base.base is not None:
            off += base.off
            base = base.base
        self.base = base
        self.off = off
        self.leaf = False  # set by new_str for declared input characters
        self.hexsrc = None  # (token, index, width, upper) for digits produced by rt.hex_digits


_ATOMS: dict = {}


def reset_atoms():
    _ATOMS.clear()
    core.ATOM_BY_EID.clear()
    core.CP_OF_Z.clear()
    core.CP_ZVAR.clear()
    core._VARS_CACHE.clear()


def zt(c):
    return c.z if isinstance(c, CP) else c


def atom_eq(a, b):
    """a, b: int | CP -> bool | SBool (cached)."""
    if isinstance(a, int):
        if isinstance(b, int):
            return a == b
        a, b = b, a
    # a is CP
    if isinstance(b, int):
        if a.base is not None:
            return atom_eq(a.base, b - a.off)
        k = (a.id, b)
    else:
        if a.id == b.id:
            return True
        k = (a.id, "v", b.id) if a.id < b.id else (b.id, "v", a.id)
    r = _ATOMS.get(k)
    if r is None:
        if isinstance(b, int) and a.leaf:
            r = core.SAtom(a.id, ((b, b),), a.z)
        else:
            r = mk_bool(zt(a) == zt(b))
        _ATOMS[k] = r
    return r


def _ivs(pred):
    out = []
    start = None
    for c in range(0x110000):
        if pred(c):
            if start is None:
                start = c
        elif start is not None:
            out.append((start, c - 1))
            start = None
    if start is not None:
        out.append((start, MAXCP))
    return tuple(out)


_TABLES: dict = {}


def table(name):
    """Interval tables of character predicates, derived from this interpreter."""
    t = _TABLES.get(name)
    if t is None:
        pred = {
            "space": lambda c: chr(c).isspace(),
            "linebreak": lambda c: len((chr(c) + "x").splitlines()) == 2,
            "digit": lambda c: chr(c).isdigit(),
            "decimal": lambda c: chr(c).isdecimal(),
            "alpha": lambda c: chr(c).isalpha(),
            "alnum": lambda c: chr(c).isalnum(),
            "upper": lambda c: chr(c).isupper(),
            "lower": lambda c: chr(c).islower(),
            "lower_changes": lambda c: chr(c).lower() != chr(c),
            "upper_changes": lambda c: chr(c).upper() != chr(c),
            "ascii": lambda c: c < 128,
            "printable": lambda c: chr(c).isprintable(),
            "bspace": lambda c: c < 256 and bytes([c]).isspace(),
        }[name]
        t = _TABLES[name] = _ivs(pred)
    return t


def ivs_of_chars(chars):
    cps = sorted(set(ord(c) if isinstance(c, str) else c for c in chars))
    out = []
    for c in cps:
        if out and out[-1][1] == c - 1:
            out[-1] = (out[-1][0], c)
        else:
            out.append((c, c))
    return tuple(out)


def cp_in_ivs(c, ivs, tag=None):
    """c: int|CP -> bool|SBool: membership of a code point in an interval set (cached)."""
    if isinstance(c, int):
        for lo, hi in ivs:
            if lo <= c <= hi:
                return True
        return False
    if c.base is not None:
        off = c.off
        return cp_in_ivs(c.base, tuple((lo - off, hi - off) for lo, hi in ivs), None if tag is None else (tag, off))
    if c.hexsrc is not None:
        # a digit of a formatted hexadecimal number: one of 0-9 and A-F (or a-f)
        letters = (65, 70) if c.hexsrc[3] else (97, 102)
        def covered(lo, hi):
            return any(a <= lo and hi <= b for a, b in ivs)
        if covered(48, 57) and covered(*letters):
            return True
    k = (c.id, tag if tag is not None else ivs)
    r = _ATOMS.get(k)
    if r is None:
        ivs = tuple(ivs)
        if not ivs:
            r = False
        elif c.leaf:
            r = core.SAtom(c.id, ivs, c.z)
        else:
            z = c.z
            alts = [(z == lo) if lo == hi else z3.And(z >= lo, z <= hi) for lo, hi in ivs]
            r = mk_bool(z3.Or(*alts) if len(alts) > 1 else alts[0])
        _ATOMS[k] = r
    return r


def _case_map(name):
    """(list of (lo, hi, offset)), set of code points with multi-char mapping."""
    key = "map_" + name
    t = _TABLES.get(key)
    if t is None:
        f = str.lower if name == "lower" else str.upper
        groups = []
        multi = []
        for lo, hi in table(name + "_changes"):
            for c in range(lo, hi + 1):
                m = f(chr(c))
                if len(m) != 1:
                    multi.append(c)
                    continue
                off = ord(m) - c
                if groups and groups[-1][1] == c - 1 and groups[-1][2] == off:
                    groups[-1][1] = c
                else:
                    groups.append([c, c, off])
        t = _TABLES[key] = (tuple(tuple(g) for g in groups), ivs_of_chars(multi))
    return t


def map_case(c, name):
    """lower()/upper() of one code point (int|CP) -> int|CP."""
    if isinstance(c, int):
        m = (chr(c).lower() if name == "lower" else chr(c).upper())
        if len(m) != 1:
            raise Unsupported("multi-char case mapping")
        return ord(m)
    if not cp_in_ivs(c, table(name + "_changes"), name + "_changes"):
        return c
    if name == "lower" and cp_in_ivs(c, ((65, 90),)):
        return CP(c.z + 32, c, 32)
    if name == "upper" and cp_in_ivs(c, ((97, 122),)):
        return CP(c.z - 32, c, -32)
    groups, multi = _case_map(name)
    if cp_in_ivs(c, multi, name + "_multi"):
        raise Unsupported("multi-char case mapping of symbolic char")
    # non-ASCII with a 1:1 mapping: piecewise offset by case split over offset groups
    byoff = {}
    for lo, hi, off in groups:
        byoff.setdefault(off, []).append((lo, hi))
    for off, iv in byoff.items():
        if cp_in_ivs(c, tuple(iv), (name, off)):
            return CP(c.z + off, c, off)
    raise Unsupported("case mapping: no group matched")


class SStr:
    """A str (or bytes, see SBytes) of concrete length; elements int or CP."""

    __slots__ = ("cps",)
    _ctype = str

    def __init__(self, cps):
        self.cps = tuple(cps)

    # -- construction helpers
    @classmethod
    def of(cls, v):
        if isinstance(v, SStr):
            return v
        if isinstance(v, str):
            return SStr([ord(c) for c in v])
        if isinstance(v, (bytes, bytearray)):
            return SBytes(list(v))
        raise TypeError("cannot make SStr from %s" % type(v).__name__)

    def _new(self, cps):
        return lift(type(self)(cps))

    def is_concrete(self):
        for c in self.cps:
            if not isinstance(c, int):
                return False
        return True

    def concrete(self):
        return "".join(map(chr, self.cps))

    def concretize(self):
        eng = core.engine()
        out = []
        for c in self.cps:
            out.append(c if isinstance(c, int) else eng.concretize_int(zt(c)))
        return type(self)(out).concrete()

    def eval(self, model):
        out = []
        for c in self.cps:
            out.append(c if isinstance(c, int) else model.eval(zt(c), model_completion=True).as_long())
        return type(self)(out).concrete()

    def __len__(self):
        return len(self.cps)

    def __bool__(self):
        return len(self.cps) > 0

    def __iter__(self):
        for c in self.cps:
            yield self._new((c,))

    def __getitem__(self, i):
        if isinstance(i, SInt):
            i = core.engine().concretize_int(i)
        if isinstance(i, slice):
            if isinstance(i.start, SInt) or isinstance(i.stop, SInt) or isinstance(i.step, SInt):
                e = core.engine()
                i = slice(e.concretize(i.start), e.concretize(i.stop), e.concretize(i.step))
            return self._new(self.cps[i])
        return self._new((self.cps[i],))

    def _coerce(self, o):
        if isinstance(o, SStr):
            if o._ctype is not self._ctype:
                return None
            return o
        if isinstance(o, self._ctype) or (self._ctype is bytes and isinstance(o, bytearray)):
            return SStr.of(o)
        return None

    def __add__(self, o):
        p = self._coerce(o)
        if p is None:
            return NotImplemented
        return self._new(self.cps + p.cps)

    def __radd__(self, o):
        p = self._coerce(o)
        if p is None:
            return NotImplemented
        return self._new(p.cps + self.cps)

    def __mul__(self, n):
        if isinstance(n, SInt):
            n = core.engine().concretize_int(n)
        return self._new(self.cps * n)

    __rmul__ = __mul__

    def __mod__(self, args):
        raise Unsupported("%-formatting with symbolic format string")

    def _eq(self, o):
        p = self._coerce(o)
        if p is None:
            return False
        a, b = self.cps, p.cps
        if len(a) != len(b):
            return False
        conj = []
        for x, y in zip(a, b):
            r = atom_eq(x, y)
            if r is False:
                return False
            if r is not True:
                conj.append(r)
        if not conj:
            return True
        if len(conj) == 1:
            return conj[0]
        return b_and(*conj)

    def __eq__(self, o):
        return self._eq(o)

    def __ne__(self, o):
        return b_not(self._eq(o))

    def __hash__(self):
        return hash(self.concretize())

    def _lt(self, p, strict):
        """lexicographic self < p (or <=) as bool|SBool, no forks."""
        a, b = self.cps, p.cps
        n = min(len(a), len(b))
        alts = []
        prefix_eq = []
        for i in range(n):
            x, y = a[i], b[i]
            if isinstance(x, int) and isinstance(y, int):
                lt = x < y
            else:
                lt = mk_bool(zt(x) < zt(y))
            alts.append(b_and(*prefix_eq, lt))
            e = atom_eq(x, y)
            if e is False:
                break
            prefix_eq.append(e)
        else:
            # common prefix may be fully equal
            tail = (len(a) < len(b)) or (not strict and len(a) == len(b))
            if tail:
                alts.append(b_and(*prefix_eq))
        return b_or(*alts)

    def _ord(self, o, swap, strict):
        p = self._coerce(o)
        if p is None:
            return NotImplemented
        return p._lt(self, strict) if swap else self._lt(p, strict)

    def __lt__(self, o):
        return self._ord(o, False, True)

    def __le__(self, o):
        return self._ord(o, False, False)

    def __gt__(self, o):
        return self._ord(o, True, True)

    def __ge__(self, o):
        return self._ord(o, True, False)

    def __contains__(self, item):
        return bool(contains(self, item))

    def __str__(self):
        raise Unsupported("native str() of a symbolic string")

    def __repr__(self):
        return "<sym-%s/%d>" % (self._ctype.__name__, len(self.cps))

    def __format__(self, spec):
        raise Unsupported("native format() of a symbolic string")

    def __reduce__(self):
        raise Unsupported("pickling a symbolic string")

    def __getattr__(self, name):
        # str methods for duck-typed (uninstrumented) callers, e.g. harness code
        f = STR_METHODS.get(name)
        if f is None or name.startswith("__"):
            raise AttributeError(name)
        if name == "join":
            return lambda parts: join(self, parts)
        return lambda *a, **k: f(self, *a, **k)


class SBytes(SStr):
    __slots__ = ()
    _ctype = bytes

    def concrete(self):
        return bytes(self.cps)

    def __iter__(self):
        for c in self.cps:
            yield c if isinstance(c, int) else SInt(zt(c))

    def __getitem__(self, i):
        if isinstance(i, SInt):
            i = core.engine().concretize_int(i)
        if isinstance(i, slice):
            return SStr.__getitem__(self, i)
        c = self.cps[i]
        return c if isinstance(c, int) else SInt(zt(c))


def lift(s: SStr):
    """Return a real str/bytes if fully concrete."""
    if s.is_concrete():
        return s.concrete()
    return s


def is_sym(v):
    return isinstance(v, (SStr, SInt, SBool))


def contains(container, item):
    """`item in container` -> bool | SBool (no fork)."""
    if isinstance(container, (str, bytes, SStr)):
        if isinstance(item, (SInt,)) or (isinstance(item, int) and isinstance(container, (bytes, SBytes))):
            c = SStr.of(container)
            return b_or(*[mk_bool(zt(x) == core._zi(item)) if not (isinstance(x, int) and isinstance(item, int)) else x == item for x in c.cps])
        if not isinstance(item, (str, bytes, SStr)):
            raise TypeError("'in <string>' requires string as left operand")
        if isinstance(container, (str, bytes)) and isinstance(item, (str, bytes)):
            return item in container
        it = SStr.of(item).cps
        if isinstance(container, (str, bytes)) and len(it) == 1:
            ivs = ivs_of_chars(container)
            return cp_in_ivs(it[0], ivs)
        c = SStr.of(container).cps
        n, m = len(c), len(it)
        if m == 0:
            return True
        if m > n:
            return False
        alts = []
        for start in range(n - m + 1):
            conj = []
            ok = True
            for k in range(m):
                r = atom_eq(c[start + k], it[k])
                if r is False:
                    ok = False
                    break
                if r is not True:
                    conj.append(r)
            if not ok:
                continue
            if not conj:
                return True
            alts.append(b_and(*conj))
        return b_or(*alts)
    if isinstance(container, (tuple, list, set, frozenset, dict)) or type(container).__name__ in ("dict_keys", "dict_values"):
        if not is_sym(item):
            anysym = False
            for x in container:
                if is_sym(x):
                    anysym = True
                    break
            if not anysym:
                return item in container
        alts = []
        for x in container:
            r = x == item
            if r is True:
                return True
            if r is False or r is NotImplemented:
                continue
            alts.append(r)
        return b_or(*alts)
    return item in container


# ------------------------------------------------------------- str methods

STR_METHODS: dict = {}


def method(*names):
    def deco(f):
        for n in names:
            STR_METHODS[n] = f
        return f

    return deco


def _T(v):
    """truth of bool|SBool with fork."""
    return v if isinstance(v, bool) else bool(v)


def _ws(s):
    tag = "bspace" if isinstance(s, SBytes) else "space"
    tb = table(tag)
    return lambda c: cp_in_ivs(c, tb, tag)


def _strip_set(s, chars):
    if chars is None:
        return _ws(s)
    if isinstance(chars, SStr):
        raise Unsupported("strip(symbolic chars)")
    ivs = ivs_of_chars(chars)
    return lambda c: cp_in_ivs(c, ivs)


@method("lstrip")
def _lstrip(s, chars=None):
    t = _strip_set(s, chars)
    i = 0
    n = len(s.cps)
    while i < n and _T(t(s.cps[i])):
        i += 1
    return s._new(s.cps[i:])


@method("rstrip")
def _rstrip(s, chars=None):
    t = _strip_set(s, chars)
    j = len(s.cps)
    while j > 0 and _T(t(s.cps[j - 1])):
        j -= 1
    return s._new(s.cps[:j])


@method("strip")
def _strip(s, chars=None):
    left = _lstrip(s, chars)
    if not isinstance(left, SStr):
        return left.strip(chars)
    return _rstrip(left, chars)


def _norm_range(n, start, end):
    e = core.engine()
    start = 0 if start is None else e.concretize(start)
    end = n if end is None else e.concretize(end)
    if start < 0:
        start = max(0, n + start)
    if end < 0:
        end = max(0, n + end)
    return start, min(end, n)


@method("startswith")
def _startswith(s, prefix, start=None, end=None):
    if isinstance(prefix, tuple):
        return b_or(*[_startswith(s, p, start, end) for p in prefix])
    p = s._coerce(prefix)
    if p is None:
        raise TypeError("startswith arg")
    a, b = _norm_range(len(s.cps), start, end)
    if a + len(p.cps) > b:
        return False
    return type(s)(s.cps[a : a + len(p.cps)])._eq(p) if p.cps else True


@method("endswith")
def _endswith(s, suffix, start=None, end=None):
    if isinstance(suffix, tuple):
        return b_or(*[_endswith(s, p, start, end) for p in suffix])
    p = s._coerce(suffix)
    if p is None:
        raise TypeError("endswith arg")
    a, b = _norm_range(len(s.cps), start, end)
    if b - len(p.cps) < a:
        return False
    return type(s)(s.cps[b - len(p.cps) : b])._eq(p) if p.cps else True


@method("removeprefix")
def _removeprefix(s, p):
    if _T(_startswith(s, p)):
        return s._new(s.cps[len(p) :])
    return lift(s)


@method("removesuffix")
def _removesuffix(s, p):
    if len(p) and _T(_endswith(s, p)):
        return s._new(s.cps[: len(s.cps) - len(p)])
    return lift(s)


@method("splitlines")
def _splitlines(s, keepends=False):
    out = []
    cur = []
    i = 0
    n = len(s.cps)
    if isinstance(s, SBytes):
        lb = ((10, 10), (13, 13))
        tag = "blb"
    else:
        lb = table("linebreak")
        tag = "linebreak"
    while i < n:
        c = s.cps[i]
        if _T(cp_in_ivs(c, lb, tag)):
            end = [c]
            if i + 1 < n and _T(atom_eq(c, 13)) and _T(atom_eq(s.cps[i + 1], 10)):
                end.append(s.cps[i + 1])
                i += 1
            out.append(s._new(cur + (end if keepends else [])))
            cur = []
        else:
            cur.append(c)
        i += 1
    if cur:
        out.append(s._new(cur))
    return out


@method("split")
def _split(s, sep=None, maxsplit=-1):
    maxsplit = core.engine().concretize(maxsplit)
    if sep is not None:
        sp = s._coerce(sep)
        m = len(sp.cps)
        if m == 0:
            raise ValueError("empty separator")
        out = []
        cur_start = 0
        i = 0
        n = len(s.cps)
        splits = 0
        while i + m <= n:
            if (maxsplit < 0 or splits < maxsplit) and _T(type(s)(s.cps[i : i + m])._eq(sp)):
                out.append(s._new(s.cps[cur_start:i]))
                i += m
                cur_start = i
                splits += 1
            else:
                i += 1
        out.append(s._new(s.cps[cur_start:]))
        return out
    out = []
    i = 0
    n = len(s.cps)
    splits = 0
    ws = _ws(s)
    while True:
        while i < n and _T(ws(s.cps[i])):
            i += 1
        if i >= n:
            break
        if maxsplit >= 0 and splits >= maxsplit:
            out.append(s._new(s.cps[i:]))
            break
        j = i
        while j < n and not _T(ws(s.cps[j])):
            j += 1
        out.append(s._new(s.cps[i:j]))
        splits += 1
        i = j
    return out


@method("rsplit")
def _rsplit(s, sep=None, maxsplit=-1):
    maxsplit = core.engine().concretize(maxsplit)
    if maxsplit < 0:
        return _split(s, sep, -1)
    if sep is None:
        ws = _ws(s)
        out = []
        j = len(s.cps)
        splits = 0
        while True:
            while j > 0 and _T(ws(s.cps[j - 1])):
                j -= 1
            if j <= 0:
                break
            if splits >= maxsplit:
                out.append(s._new(s.cps[:j]))
                break
            i = j
            while i > 0 and not _T(ws(s.cps[i - 1])):
                i -= 1
            out.append(s._new(s.cps[i:j]))
            splits += 1
            j = i
        out.reverse()
        return out
    sp = s._coerce(sep)
    m = len(sp.cps)
    if m == 0:
        raise ValueError("empty separator")
    out = []
    end = len(s.cps)
    j = end
    splits = 0
    while j - m >= 0:
        if splits < maxsplit and _T(type(s)(s.cps[j - m : j])._eq(sp)):
            out.append(s._new(s.cps[j:end]))
            j -= m
            end = j
            splits += 1
        else:
            j -= 1
    out.append(s._new(s.cps[:end]))
    out.reverse()
    return out


@method("find")
def _find(s, sub, start=None, end=None):
    if isinstance(sub, (int, SInt)) and isinstance(s, SBytes):
        sub = SBytes([sub if isinstance(sub, int) else CP(sub.e)])
    p = s._coerce(sub)
    a, b = _norm_range(len(s.cps), start, end)
    m = len(p.cps)
    for i in range(a, b - m + 1):
        if _T(type(s)(s.cps[i : i + m])._eq(p)):
            return i
    return -1


@method("rfind")
def _rfind(s, sub, start=None, end=None):
    p = s._coerce(sub)
    a, b = _norm_range(len(s.cps), start, end)
    m = len(p.cps)
    for i in range(b - m, a - 1, -1):
        if _T(type(s)(s.cps[i : i + m])._eq(p)):
            return i
    return -1


@method("index")
def _index(s, sub, start=None, end=None):
    r = _find(s, sub, start, end)
    if r < 0:
        raise ValueError("substring not found")
    return r


@method("count")
def _count(s, sub, start=None, end=None):
    p = s._coerce(sub)
    a, b = _norm_range(len(s.cps), start, end)
    m = len(p.cps)
    if m == 0:
        return b - a + 1
    i = a
    k = 0
    while i + m <= b:
        if _T(type(s)(s.cps[i : i + m])._eq(p)):
            k += 1
            i += m
        else:
            i += 1
    return k


@method("replace")
def _replace(s, old, new, count=-1):
    o = s._coerce(old)
    nw = s._coerce(new)
    m = len(o.cps)
    if m == 0:
        raise Unsupported("replace with empty pattern")
    out = []
    i = 0
    n = len(s.cps)
    k = 0
    while i < n:
        if i + m <= n and (count < 0 or k < count) and _T(type(s)(s.cps[i : i + m])._eq(o)):
            out.extend(nw.cps)
            i += m
            k += 1
        else:
            out.append(s.cps[i])
            i += 1
    return s._new(out)


@method("partition")
def _partition(s, sep):
    i = _find(s, sep)
    if i < 0:
        return (lift(s), s._ctype(), s._ctype())
    return (s._new(s.cps[:i]), lift(s._coerce(sep)), s._new(s.cps[i + len(sep) :]))


@method("rpartition")
def _rpartition(s, sep):
    i = _rfind(s, sep)
    if i < 0:
        return (s._ctype(), s._ctype(), lift(s))
    return (s._new(s.cps[:i]), lift(s._coerce(sep)), s._new(s.cps[i + len(sep) :]))


@method("lower")
def _lower(s):
    return s._new([map_case(c, "lower") for c in s.cps])


@method("upper")
def _upper(s):
    return s._new([map_case(c, "upper") for c in s.cps])


def _all_in(s, tag, empty=False):
    if not s.cps:
        return empty
    tb = table(tag)
    return b_and(*[cp_in_ivs(c, tb, tag) for c in s.cps])


@method("isdigit")
def _isdigit(s):
    return _all_in(s, "digit")


@method("isdecimal")
def _isdecimal(s):
    return _all_in(s, "decimal")


@method("isspace")
def _isspace(s):
    return _all_in(s, "bspace" if isinstance(s, SBytes) else "space")


@method("isalpha")
def _isalpha(s):
    return _all_in(s, "alpha")


@method("isalnum")
def _isalnum(s):
    return _all_in(s, "alnum")


@method("isascii")
def _isascii(s):
    return _all_in(s, "ascii", empty=True)


@method("isprintable")
def _isprintable(s):
    return _all_in(s, "printable", empty=True)


@method("encode")
def _encode(s, encoding="utf-8", errors="strict"):
    if isinstance(s, SBytes):
        raise AttributeError("encode")
    if _T(_all_in(s, "ascii", empty=True)):
        return lift(SBytes(s.cps))
    raise Unsupported("encode of non-ASCII symbolic string")


@method("decode")
def _decode(s, encoding="utf-8", errors="strict"):
    if not isinstance(s, SBytes):
        raise AttributeError("decode")
    enc = encoding.lower().replace("_", "-")
    if enc in ("latin-1", "latin1", "iso-8859-1"):
        return lift(SStr(s.cps))
    if enc not in ("utf-8", "utf8", "ascii") or errors not in ("strict", "replace", "ignore") or (enc == "ascii" and errors != "strict"):
        raise Unsupported("decode(%s, %s)" % (encoding, errors))
    out = []
    b = s.cps
    n = len(b)
    i = 0

    def inr(c, lo, hi):
        return _T(cp_in_ivs(c, ((lo, hi),)))

    def z(c):
        return zt(c)

    class _Skip(Exception):
        pass

    def bad(pos, why, consumed=1):
        # CPython replaces / ignores the maximal valid prefix of the ill-formed sequence (`consumed` bytes) and resumes after it
        if errors == "strict":
            raise UnicodeDecodeError("utf-8", bytes(x if isinstance(x, int) else 0 for x in b), pos, min(pos + consumed, n), why)
        if errors == "replace":
            out.append(0xFFFD)
        raise _Skip(pos + consumed)

    while i < n:
        try:
            c = b[i]
            if inr(c, 0, 0x7F):
                out.append(c)
                i += 1
                continue
            if enc == "ascii":
                raise UnicodeDecodeError("ascii", b"", i, i + 1, "ordinal not in range(128)")
            if inr(c, 0xC2, 0xDF):
                need, lo2, hi2, base = 1, 0x80, 0xBF, 0xC0
            elif inr(c, 0xE0, 0xEF):
                need, base = 2, 0xE0
                if inr(c, 0xE0, 0xE0):
                    lo2, hi2 = 0xA0, 0xBF
                elif inr(c, 0xED, 0xED):
                    lo2, hi2 = 0x80, 0x9F
                else:
                    lo2, hi2 = 0x80, 0xBF
            elif inr(c, 0xF0, 0xF4):
                need, base = 3, 0xF0
                if inr(c, 0xF0, 0xF0):
                    lo2, hi2 = 0x90, 0xBF
                elif inr(c, 0xF4, 0xF4):
                    lo2, hi2 = 0x80, 0x8F
                else:
                    lo2, hi2 = 0x80, 0xBF
            else:
                bad(i, "invalid start byte")
            if i + 1 >= n:
                bad(i, "unexpected end of data")
            if not inr(b[i + 1], lo2, hi2):
                bad(i, "invalid continuation byte")
            for k in range(2, need + 1):
                if i + k >= n:
                    bad(i, "unexpected end of data", k)
                if not inr(b[i + k], 0x80, 0xBF):
                    bad(i, "invalid continuation byte", k)
            val = z(c) - base
            for k in range(1, need + 1):
                val = val * 64 + (z(b[i + k]) - 0x80)
            if isinstance(val, int):
                out.append(val)
            else:
                val = z3.simplify(val)
                out.append(val.as_long() if z3.is_int_value(val) else CP(val))
            i += need + 1
        except _Skip as sk:
            i = sk.args[0]
    return lift(SStr(out))


@method("join")
def _join(sep, parts):
    return join(sep, parts)


def join(sep, parts):
    parts = list(parts)
    if not isinstance(sep, SStr):
        allc = True
        for p in parts:
            if not isinstance(p, type(sep)):
                allc = False
                break
        if allc:
            return sep.join(parts)
    s = SStr.of(sep)
    out = []
    for i, p in enumerate(parts):
        if i:
            out.extend(s.cps)
        q = s._coerce(p)
        if q is None:
            raise TypeError("sequence item %d: expected str instance, %s found" % (i, type(p).__name__))
        out.extend(q.cps)
    return s._new(out)


@method("expandtabs")
def _expandtabs(s, tabsize=8):
    for c in s.cps:
        if _T(atom_eq(c, 9)):
            raise Unsupported("expandtabs with a tab")
    return lift(s)


@method("zfill")
def _zfill(s, width):
    raise Unsupported("zfill")


@method("format")
def _format(s, *a, **k):
    raise Unsupported("symbolic format string")


@method("title", "capitalize", "casefold", "swapcase", "translate", "center", "ljust", "rjust", "isidentifier", "istitle", "isupper", "islower", "isnumeric")
def _unsupported(s, *a, **k):
    raise Unsupported("str method outside the model")


def new_str(eng, name, n, alphabet=None, cls=None, ranges=None):
    """A fresh symbolic string of length n; constrained to `alphabet` (str) or
    `ranges` (interval list) or all code points."""
    cls = cls or SStr
    cps = []
    for i in range(n):
        z = z3.Int("%s_%d" % (name, i))
        if alphabet is not None:
            ivs = ivs_of_chars(alphabet)
        elif ranges is not None:
            ivs = tuple(ranges)
        else:
            ivs = ((0, 255),) if cls is SBytes else ((0, MAXCP),)
        alts = [(z == lo) if lo == hi else z3.And(z >= lo, z <= hi) for lo, hi in ivs]
        cp = CP(z)
        cp.leaf = True
        core.CP_OF_Z[z.get_id()] = cp.id
        core.CP_ZVAR[cp.id] = z
        eng.assume_base(z3.Or(*alts) if len(alts) > 1 else alts[0], unary_cp=cp.id, ivs=tuple(ivs))
        cps.append(cp)
    return cls(cps)


def new_int(eng, name, lo=None, hi=None):
    z = z3.Int(name)
    if lo is not None:
        eng.assume_base(z >= lo)
    if hi is not None:
        eng.assume_base(z <= hi)
    return SInt(z)


def new_bool(eng, name):
    return SBool(z3.Bool(name))
