"""Check driver: families -> parallel prefix exploration -> replay -> verdict -> evidence.

A harness module (harness/cNN_*.py) defines

  ID            = "C07"
  TITLE         = "..."
  ENCODED       = [module names instrumented]           (informational; actual set measured)
  def setup()                     -> load instrumented copies etc. (once per process, before fork)
  def families(tier, seed)        -> list[Family]
  def selftest(seed)              -> list[str]  problems found by translator validation (empty = ok)
  def replay(label, witness)      -> None | (signature, description)
       runs the REAL, uninstrumented code on the concrete witness and evaluates the property
       with ordinary Python.  None = the property holds concretely (model was spurious).

Family(name, make, bounds, required=True, budget_s=None, twin=None):
  make(eng) -> body   : creates the symbolic inputs on `eng` (base assumptions, witness_fn) and
                        returns the per-path body callable.
"""
from __future__ import annotations

import json
import multiprocessing as mp
import os
import signal
import sys
import time
import traceback

import z3

from . import core, rt, instrument
from .sstr import reset_atoms

EXIT_OK, EXIT_VIOLATION, EXIT_HARNESS = 0, 1, 3
VERIF = os.path.dirname(os.path.dirname(os.path.abspath(__file__)))
# development aid (seed testing in scratch worktrees): evidence/replays of such runs go elsewhere; unset in every registered command
EVID = os.environ.get("SYMX_EVIDENCE_DIR") or os.path.join(VERIF, "evidence")


class Family:
    def __init__(self, name, make, bounds, required=True, budget_s=None, args=None, nontrivial=None, max_forks=4000, max_steps=60000):
        self.max_steps = max_steps
        self.name = name
        self.make = make
        self.bounds = bounds
        self.required = required
        self.budget_s = budget_s
        self.args = args or {}
        self.nontrivial = nontrivial  # note key that counts as non-trivial
        self.max_forks = max_forks


_H = None  # harness module (set before fork)
_FAMS = None


class _ReplayTimeout(BaseException):
    pass


def _alarm(signum, frame):
    raise _ReplayTimeout()


def _run_replay(label, witness, timeout=20):
    """Replay in this (forked worker) process against the real modules."""
    old = signal.signal(signal.SIGALRM, _alarm)
    signal.alarm(timeout)
    saved_engine = core.ENGINE
    core.ENGINE = None
    try:
        r = _H.replay(label, witness)
    except _ReplayTimeout:
        r = ("%s/termination" % _H.ID, "the real code did not terminate within %ds on %s" % (timeout, _short(witness, 300)))
    except BaseException as exc:  # replay itself is harness code: its crash is a harness error
        r = ("HARNESS-ERROR", "replay raised %s: %s" % (type(exc).__name__, "".join(traceback.format_exception(exc))[-1500:]))
    finally:
        signal.alarm(0)
        signal.signal(signal.SIGALRM, old)
        core.ENGINE = saved_engine
    return r


def call_with_timeout(fn, secs, *a, **k):
    """Run fn(*a, **k) in this process under a SIGALRM timeout; raises TimeoutError."""

    def h(signum, frame):
        raise TimeoutError("timed out after %ss" % secs)

    old = signal.signal(signal.SIGALRM, h)
    signal.setitimer(signal.ITIMER_REAL, secs)
    try:
        return fn(*a, **k)
    finally:
        signal.setitimer(signal.ITIMER_REAL, 0)
        signal.signal(signal.SIGALRM, old)


def _task(t):
    """Worker: explore the subtree of family `fi` under `prefix` for at most `slice_s`."""
    fi, prefix, slice_s, hard_deadline, confirmed, paranoid_task = t
    fam = _FAMS[fi]
    reset_atoms()
    rt.ENTERED.clear()
    eng = core.Engine(max_forks=fam.max_forks, max_steps=fam.max_steps)
    if paranoid_task:
        eng.paranoid = max(eng.paranoid, 3)  # cross-check pre-solver shortcuts and prefix hand-over against z3
    t0 = time.time()
    out = dict(fi=fi, stats=None, notes=None, cands=[], leftovers=[], exhausted=False, error=None,
               unsupported={}, samples=[], entered=[])
    try:
        body = fam.make(eng, **fam.args)
        samples = []

        def on_path(kind, val, e):
            if len(samples) < 3 and kind == "ok":
                try:
                    samples.append({"witness": e.witness(), "result": _short(val)})
                except BaseException:
                    pass

        deadline = min(t0 + slice_s, hard_deadline)
        exhausted, left = eng.explore(body, prefix=prefix, deadline=deadline, on_path=on_path, hard_deadline=hard_deadline)
        out["exhausted"] = exhausted
        out["leftovers"] = left
        out["samples"] = samples
    except BaseException as exc:
        out["error"] = "".join(traceback.format_exception(exc))[-3000:]
    out["stats"] = eng.stats
    out["notes"] = eng.notes
    out["unsupported"] = eng.unsupported_reasons
    out["entered"] = rt.entered_names()
    # replay candidates here (dedupe by label + witness)
    seen = set()
    nconf = dict(confirmed)
    known_open = _known_open()
    for c in eng.candidates:
        key = (c.label, json.dumps(c.witness, sort_keys=True, default=str))
        if key in seen:
            continue
        seen.add(key)
        if nconf.get(c.label, 0) >= 3:
            # this obligation already has replayed violations: do not spend replay time on more witnesses
            out["skipped"] = out.get("skipped", 0) + 1
            continue
        r = _run_replay(c.label, c.witness, timeout=6 if c.label == "termination" else 20)
        if r is not None and r[0] not in ("HARNESS-ERROR",):
            # witnesses of a listed known finding must not use up the replay allowance of their obligation:
            # another witness of the same obligation may be a different (unlisted) violation
            k = c.label if r[0] not in known_open else (c.label, r[0])
            nconf[k] = nconf.get(k, 0) + 1
            if k != c.label and nconf[k] > 40:
                nconf[c.label] = nconf.get(c.label, 0) + 1
        out["cands"].append(dict(label=c.label, witness=c.witness, detail=c.detail, replay=r))
    return out


def _short(v, n=200):
    try:
        s = json.dumps(v, default=str)
    except Exception:
        s = repr(v)
    return s if len(s) <= n else s[:n] + "..."


_KNOWN_OPEN = []


def _known_open():
    if not _KNOWN_OPEN:
        _KNOWN_OPEN.append({f["signature"] for f in load_known() if f.get("status") == "open"})
    return _KNOWN_OPEN[0]


def load_known():
    p = os.path.join(VERIF, "known_findings.json")
    if not os.path.exists(p):
        return []
    return json.load(open(p)).get("findings", [])


def run_check(H, tier, seed, only_family=None, jobs=None, verbose=True):
    global _H, _FAMS
    t_start = time.time()
    _H = H
    jobs = jobs or min(16, os.cpu_count() or 4)
    log = (lambda *a: print(*a, file=sys.stderr, flush=True)) if verbose else (lambda *a: None)
    harness_errors = []

    H.setup()
    st = time.time()
    try:
        problems = H.selftest(seed) or []
    except BaseException as exc:
        problems = ["selftest crashed: " + "".join(traceback.format_exception(exc))[-2000:]]
    selftest_s = time.time() - st
    for p in problems:
        harness_errors.append("selftest: " + p)
        log("SELFTEST PROBLEM:", p)

    fams = H.families(tier, seed)
    if only_family:
        fams = [f for f in fams if only_family in f.name]
    _FAMS = fams
    total_budget = getattr(H, "BUDGET_S", {}).get(tier, 120 if tier == "quick" else 900)
    if tier == "quick":
        total_budget = max(total_budget, 300)  # head-room for slower machines; required families are sized for ~1/6 of this
    hard_deadline = t_start + total_budget

    per = [dict(name=f.name, bounds=f.bounds, required=f.required, paths=0, checks=0, solver_s=0.0, obligations=0,
                discharged=0, unsupported=0, aborted=0, budget=0, forks=0, forced=0, exhausted=False, pending=0, notes={},
                samples=[], wall_s=0.0, tasks=0, errors=[]) for f in fams]
    cands = []
    unsupported = {}
    entered = set()
    for label, witness in getattr(H, "SELFTEST_CANDIDATES", []):
        cands.append(dict(label=label, witness=witness, detail="found by the concrete self-test", replay=_run_replay(label, witness), family="selftest"))

    ctx = mp.get_context("fork")
    pool = ctx.Pool(jobs, maxtasksperchild=50)
    inflight = {}
    confirmed = {}
    queue = []  # (fi, prefix)
    # required families first; optional families are started only once every required family is
    # exhausted, and only while the soft budget lasts
    optional_waiting = []
    for i, f in enumerate(fams):
        per[i]["pending"] = 1
        if f.required:
            queue.append((i, ()))
        else:
            optional_waiting.append((i, ()))
    soft_budget = getattr(H, "SOFT_BUDGET_S", {}).get(tier, 60 if tier == "quick" else 600)
    soft_deadline = t_start + soft_budget
    slice_s = 1.5 if tier == "quick" else 4.0
    tid = 0
    try:
        while queue or inflight or optional_waiting:
            now = time.time()
            if now > hard_deadline:
                break
            if optional_waiting and not queue and not inflight:
                if now < soft_deadline:
                    queue.extend(optional_waiting)
                    hard_deadline = min(hard_deadline, soft_deadline)  # optional work never runs past the soft budget
                optional_waiting = []
                if not queue:
                    break
            while queue and len(inflight) < jobs * 2:
                fi, prefix = queue.pop(0)
                # initial tasks get a short slice so the tree fans out quickly
                s = 0.4 if len(prefix) == 0 else slice_s
                ar = pool.apply_async(_task, ((fi, prefix, s, hard_deadline, tuple(confirmed.items()), (tid % (23 if tier == "quick" else 7) == 3)),))
                inflight[tid] = (fi, ar)
                tid += 1
            done = [k for k, (fi, ar) in inflight.items() if ar.ready()]
            if not done:
                time.sleep(0.01)
                continue
            for k in done:
                fi, ar = inflight.pop(k)
                try:
                    r = ar.get()
                except BaseException as exc:
                    per[fi]["errors"].append("worker crashed: %r" % (exc,))
                    per[fi]["pending"] -= 1
                    continue
                p = per[fi]
                p["pending"] -= 1
                p["tasks"] += 1
                for key in ("paths", "checks", "solver_s", "obligations", "discharged", "unsupported", "aborted", "budget", "forks", "forced"):
                    p[key] += r["stats"][key]
                for nk, nv in (r["notes"] or {}).items():
                    p["notes"][nk] = p["notes"].get(nk, 0) + nv
                if r["error"]:
                    p["errors"].append(r["error"])
                if r["stats"].get("engine_inconsistency"):
                    p["errors"].append("engine inconsistency detected by the paranoid cross-checks (%d)" % r["stats"]["engine_inconsistency"])
                for uk, uv in r["unsupported"].items():
                    if isinstance(uv, int):
                        unsupported[uk] = unsupported.get(uk, 0) + uv
                    else:
                        unsupported.setdefault(uk, uv)
                entered.update(r["entered"])
                if len(p["samples"]) < 4:
                    p["samples"].extend(r["samples"][: 4 - len(p["samples"])])
                for c in r["cands"]:
                    c["family"] = fams[fi].name
                    cands.append(c)
                    if c["replay"] is not None and c["replay"][0] != "HARNESS-ERROR" and c["replay"][0] not in _known_open():
                        confirmed[c["label"]] = confirmed.get(c["label"], 0) + 1
                for lp in r["leftovers"]:
                    queue.append((fi, lp))
                    p["pending"] += 1
            # prefer deep prefixes of required families first (DFS-ish keeps the queue small)
            if len(queue) > 4 * jobs:
                queue.sort(key=lambda q: (not fams[q[0]].required, q[0], -len(q[1])))
    finally:
        pool.terminate()
        pool.join()

    for i, p in enumerate(per):
        p["exhausted"] = p["pending"] == 0 and not p["errors"]

    # ---- verdicts
    known = load_known()
    violations = {}
    spurious = 0
    for c in cands:
        r = c["replay"]
        if r is None:
            spurious += 1
            harness_errors.append("spurious model (does not reproduce on real code): %s %s [%s]" % (c["label"], _short(c["witness"], 300), c.get("detail", "")[:3000]))
            continue
        sig, desc = r
        if sig == "HARNESS-ERROR" or sig == "replay-timeout":
            harness_errors.append("replay problem for %s: %s" % (c["label"], desc))
            continue
        violations.setdefault(sig, []).append((c, desc))

    known_hits = []
    new_viol = []
    for sig, items in violations.items():
        k = next((kf for kf in known if kf.get("property") == H.ID and kf.get("signature") == sig and kf.get("status", "open") == "open"), None)
        if k is not None:
            known_hits.append((sig, k, items))
        else:
            new_viol.append((sig, items))

    incomplete_required = [p["name"] for p in per if p["required"] and not p["exhausted"]]
    incomplete_optional = [p["name"] for p in per if not p["required"] and not p["exhausted"]]
    n_unsupported = sum(p["unsupported"] for p in per)
    n_unsupported_required = sum(p["unsupported"] for p in per if p["required"])
    for p in per:
        for e in p["errors"]:
            harness_errors.append("family %s: %s" % (p["name"], e[-800:]))
    if n_unsupported_required:
        harness_errors.append("%d inconclusive path(s) in required families: %s" % (n_unsupported_required, _short(unsupported, 600)))
    if incomplete_required:
        harness_errors.append("required families not exhausted within budget: %s" % incomplete_required)

    # vacuity: required families must have reached their non-triviality counter
    for f, p in zip(fams, per):
        if f.nontrivial and p["exhausted"] and not p["notes"].get(f.nontrivial):
            harness_errors.append("vacuity: family %s never reached '%s'" % (f.name, f.nontrivial))

    # ---- evidence
    os.makedirs(os.path.join(EVID, "replays"), exist_ok=True)
    replay_paths = []
    for n, (sig, items) in enumerate(new_viol):
        c, desc = items[0]
        path = os.path.join(EVID, "replays", "%s-%d.json" % (H.ID, n))
        json.dump(dict(property=H.ID, signature=sig, label=c["label"], family=c["family"], witness=c["witness"],
                       description=desc, detail=c["detail"],
                       reproduce="cd /verif && ./check %s --replay %s" % (H.ID, path)), open(path, "w"), indent=1, default=str)
        replay_paths.append(path)

    wall = time.time() - t_start
    tot = lambda k: sum(p[k] for p in per)
    nontrivial = 0
    for f, p in zip(fams, per):
        nontrivial += p["notes"].get(f.nontrivial, 0) if f.nontrivial else 0
    samples = []
    for p in per:
        for s in p["samples"][:2]:
            samples.append(dict(family=p["name"], **s))
    ev = dict(
        property_id=H.ID,
        tier=tier,
        seed=seed,
        level="other",
        wall_s=round(wall, 2),
        violations=len(new_viol),
        assumptions=list(getattr(H, "ASSUMPTIONS", [])),
        coverage=dict(
            explanation=getattr(H, "EXPLANATION", ""),
            technique="symbolic execution of the instrumented real source (symx) with z3 deciding every fork and obligation",
            functions_encoded=sorted(entered),
            source_sha256=instrument.source_hashes(),
            families=[{k: p[k] for k in ("name", "bounds", "required", "exhausted", "paths", "forks", "forced", "checks", "solver_s",
                                        "obligations", "discharged", "unsupported", "aborted", "notes", "tasks")} for p in per],
            outside_bounds=list(getattr(H, "OUTSIDE", [])),
            stubs=list(getattr(H, "STUBS", [])),
            paths=tot("paths"),
            evaluations=tot("paths"),
            obligations=tot("obligations"),
            discharged=tot("discharged"),
            solver_checks=tot("checks"),
            solver_s=round(tot("solver_s"), 2),
            inconclusive_paths=n_unsupported,
            inconclusive_reasons=unsupported,
            spurious_models=spurious,
            distinct_nontrivial=nontrivial,
            rule=getattr(H, "NONTRIVIAL_RULE", "paths (= input equivalence classes) that reached an obligation with a non-trivial result"),
            exhaustive=not incomplete_required and not incomplete_optional,
            families_not_exhausted=incomplete_required + incomplete_optional,
            selftest_s=round(selftest_s, 2),
            selftest_problems=problems,
            known_findings_hit=[dict(signature=s, n=len(i)) for s, k, i in known_hits],
            new_violation_signatures=[s for s, i in new_viol],
            harness_errors=harness_errors[:20],
            samples=samples[:12] or [{"note": "no completed path"}],
            z3=z3.get_version_string(),
        ),
    )
    json.dump(ev, open(os.path.join(EVID, "%s.json" % H.ID), "w"), indent=1, default=str)

    # ---- report
    for p in per:
        log("  %-34s %s paths=%d forks=%d checks=%d solver=%.1fs oblig=%d/%d unsup=%d tasks=%d %s" % (
            p["name"], "EXHAUSTED" if p["exhausted"] else "INCOMPLETE", p["paths"], p["forks"], p["checks"], p["solver_s"],
            p["discharged"], p["obligations"], p["unsupported"], p["tasks"], p["notes"]))
    if unsupported:
        log("  inconclusive reasons:", _short(unsupported, 1500))
    for sig, k, items in known_hits:
        print("KNOWN-FINDING: property=%s %s [%s] (%d witness(es), e.g. %s)" % (H.ID, k.get("what", ""), sig, len(items), _short(items[0][0]["witness"], 160)))
    for (sig, items), path in zip(new_viol, replay_paths):
        c, desc = items[0]
        print("VIOLATION property=%s replay=%s" % (H.ID, path))
        print("  signature=%s family=%s label=%s\n  %s\n  witness=%s" % (sig, c["family"], c["label"], desc, _short(c["witness"], 400)))
    for e in harness_errors[:12]:
        log("HARNESS:", e[:1200])
    log("%s %s: wall=%.1fs paths=%d obligations=%d/%d checks=%d" % (H.ID, tier, wall, tot("paths"), tot("discharged"), tot("obligations"), tot("checks")))
    if new_viol:
        return EXIT_VIOLATION
    if harness_errors:
        return EXIT_HARNESS
    return EXIT_OK


def run_replay_file(H, path):
    H.setup()
    d = json.load(open(path))
    r = H.replay(d["label"], d["witness"])
    if r is None:
        print("replay: property holds on this witness (no violation)")
        return 0
    print("replay: VIOLATION reproduced: %s\n  %s" % r)
    return 1
