#!/bin/sh
# Idempotent: build the overlay venv /verif/.venv on top of /venv (the repo's
# environment) with z3-solver / crosshair-tool / cvc5 from the offline wheelhouse.
set -e
HERE="$(cd "$(dirname "$0")" && pwd)"
V="$HERE/.venv"
STAMP="$V/.ok"
if [ -f "$STAMP" ] && "$V/bin/python" -c "import z3, markdown_it, docutils, yaml" 2>/dev/null; then
  exit 0
fi
(
  flock 9
  if [ -f "$STAMP" ] && "$V/bin/python" -c "import z3, markdown_it, docutils, yaml" 2>/dev/null; then
    exit 0
  fi
  rm -rf "$V"
  /venv/bin/python -m venv "$V" >/dev/null
  SP="$("$V/bin/python" -c 'import sysconfig; print(sysconfig.get_paths()["purelib"])')"
  printf "import site; site.addsitedir('/venv/lib/python3.12/site-packages')\n/repo\n" > "$SP/verif_overlay.pth"
  PIP_NO_INDEX=1 "$V/bin/python" -m pip install -q --no-index --find-links /opt/veriftools/wheels z3-solver >/dev/null 2>&1 \
    || { echo "bootstrap: cannot install z3-solver" >&2; exit 2; }
  PIP_NO_INDEX=1 "$V/bin/python" -m pip install -q --no-index --find-links /opt/veriftools/wheels crosshair-tool >/dev/null 2>&1 || echo "bootstrap: crosshair-tool not installed (cross-check disabled)" >&2
  PIP_NO_INDEX=1 "$V/bin/python" -m pip install -q --no-index --find-links /opt/veriftools/wheels cvc5 >/dev/null 2>&1 || echo "bootstrap: cvc5 wheel not installed (cross-solver check disabled)" >&2
  "$V/bin/python" -c "import z3, markdown_it, docutils, yaml, myst_parser; assert myst_parser.__file__.startswith('/repo/')"
  touch "$STAMP"
) 9>"$HERE/.bootstrap.lock"
