#!/bin/bash
# verify_seed.sh <src_dir containing patch.diff demo.py notes.md> <dest id e.g. C07-1> <property>
# Confirms in a scratch worktree of /repo HEAD: patch applies, test-suite failures == baseline 8,
# demo fails with the patch and passes without. Writes /verif/seeded/<id>/{patch.diff,demo.py,notes.md,meta.json}.
set -u
SRC="$1"; ID="$2"; PROP="$3"
WT="/tmp/seedverify_$ID"
rm -rf "$WT"; git -C /repo worktree prune
git -C /repo worktree add -q "$WT" HEAD || exit 2
cd "$WT"
res() { echo "$ID: $*"; }
/venv/bin/python "$SRC/demo.py" >/tmp/seedverify_$ID.clean.log 2>&1; CLEAN=$?
if ! git apply "$SRC/patch.diff" 2>/tmp/seedverify_$ID.apply.log; then res "PATCH-DOES-NOT-APPLY"; cd /; git -C /repo worktree remove --force "$WT"; exit 1; fi
/venv/bin/python "$SRC/demo.py" >/tmp/seedverify_$ID.mut.log 2>&1; MUT=$?
/venv/bin/python -m pytest -q -p no:cacheprovider --timeout=900 2>&1 | tail -15 > /tmp/seedverify_$ID.pytest.log
TAIL="$(tail -1 /tmp/seedverify_$ID.pytest.log)"
FAILED="$(grep -c '^FAILED' /tmp/seedverify_$ID.pytest.log)"
cd /; git -C /repo worktree remove --force "$WT"
OK=no
if [ "$CLEAN" = 0 ] && [ "$MUT" = 1 ] && echo "$TAIL" | grep -q "8 failed, 1076 passed"; then OK=yes; fi
res "clean_demo_exit=$CLEAN mutated_demo_exit=$MUT pytest='$TAIL' => keep=$OK"
if [ "$OK" = yes ]; then
  D="/verif/seeded/$ID"; mkdir -p "$D"
  cp "$SRC/patch.diff" "$SRC/demo.py" "$D/"; [ -f "$SRC/notes.md" ] && cp "$SRC/notes.md" "$D/"
  python3 - "$D" "$ID" "$PROP" "$TAIL" <<'P'
import json,sys,subprocess
d,i,prop,tail=sys.argv[1:5]
notes=open(d+'/notes.md').read() if __import__('os').path.exists(d+'/notes.md') else ''
json.dump({"id":i,"property":prop,"breaks":prop,"needs_to_manifest":notes[:1500],
 "verified":{"base_commit":subprocess.run(['git','-C','/repo','rev-parse','--short','HEAD'],capture_output=True,text=True).stdout.strip(),
   "ran":["git apply patch.diff (scratch worktree of /repo HEAD)","/venv/bin/python -m pytest -q -p no:cacheprovider --timeout=900","/venv/bin/python demo.py (with patch: exit 1; without: exit 0)"],
   "pytest_tail":tail,"demo_exit_clean":0,"demo_exit_mutated":1}}, open(d+'/meta.json','w'), indent=1)
P
fi
