#!/bin/bash
# seedtest.sh <seed id e.g. C07-1> [tier] [extra check args]: apply the seeded patch to /repo, run the property's check, undo.
ID="$1"; TIER="${2:-quick}"; shift; shift
PROP="${ID%%-*}"
D="/verif/seeded/$ID"
[ -f "$D/patch.diff" ] || D="/tmp/seedwork/out_$PROP/${ID##*-}"
cd /repo || exit 9
[ -z "$(git status --porcelain)" ] || { echo "/repo not clean"; exit 9; }
git apply "$D/patch.diff" || { echo "patch does not apply"; exit 9; }
cd /verif && ./check "$PROP" --tier "$TIER" "$@" > /tmp/seedtest_$ID.out 2> /tmp/seedtest_$ID.err; RC=$?
git -C /repo checkout -- . 
echo "$ID tier=$TIER exit=$RC $(grep -c '^VIOLATION' /tmp/seedtest_$ID.out) violation line(s): $(grep -m1 -A1 '^VIOLATION' /tmp/seedtest_$ID.out | tail -1 | cut -c1-200)"
