#!/usr/bin/env python3
"""Print the 'bounds at a glance' rows (DESIGN.md section 5) from the evidence files of the last run."""
import glob
import json

for f in sorted(glob.glob("/verif/evidence/C*.json")):
    e = json.load(open(f))
    fams = e["coverage"]["families"]
    paths = sum(x.get("paths", 0) for x in fams)
    checks = sum(x.get("checks", 0) for x in fams)
    done = sum(1 for x in fams if x.get("exhausted"))
    print("| %s | %s | %d k | %d k | %d / %d | %d s |" % (e["property_id"], e["tier"], round(paths / 1000), round(checks / 1000), done, len(fams), round(e["wall_s"])))
