#!/bin/bash
# seedtest_wt.sh <dir with patch.diff> <property> [jobs] [extra check args]: like seedtest.sh, but in a scratch worktree of /repo HEAD
# (SYMX_REPO), so several seeds can be tried at once and /repo's working tree is never touched.
SRC="$1"; PROP="$2"; JOBS="${3:-5}"; shift; shift; shift
NAME="$(echo "$SRC" | tr '/' '_')_$PROP"
WT="/tmp/seedwt$NAME"
rm -rf "$WT" "$WT.ev"; git -C /repo worktree prune
git -C /repo worktree add -q "$WT" HEAD || exit 9
( cd "$WT" && git apply "$SRC/patch.diff" ) || { echo "$SRC: patch does not apply"; git -C /repo worktree remove --force "$WT"; exit 9; }
cd /verif && SYMX_REPO="$WT" SYMX_EVIDENCE_DIR="$WT.ev" ./check "$PROP" --tier quick --jobs "$JOBS" "$@" > "$WT.out" 2> "$WT.err"; RC=$?
git -C /repo worktree remove --force "$WT"; rm -rf "$WT.ev"
echo "$SRC vs $PROP exit=$RC $(grep -c '^VIOLATION' "$WT.out") violation line(s): $(grep -m1 -A1 '^VIOLATION' "$WT.out" | tail -1 | cut -c1-180)"
