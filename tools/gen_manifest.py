#!/usr/bin/env python3
"""Regenerate MANIFEST.json from the harness modules' metadata (ID, LEVEL_TEXT, LEVEL_NOTE, TECHNIQUE)."""
import ast, json, os, sys
HERE = os.path.dirname(os.path.dirname(os.path.abspath(__file__)))
props = [json.loads(l) for l in open(os.path.join(HERE, "properties.jsonl"))]
NA = json.load(open(os.path.join(HERE, "tools", "not_applicable.json")))
checks = []
claimed = set()
for fn in sorted(os.listdir(os.path.join(HERE, "harness"))):
    if not (fn.startswith("c") and fn[1:3].isdigit() and fn.endswith(".py")):
        continue
    src = open(os.path.join(HERE, "harness", fn)).read()
    tree = ast.parse(src)
    meta = {}
    for node in tree.body:
        if isinstance(node, ast.Assign) and len(node.targets) == 1 and isinstance(node.targets[0], ast.Name):
            n = node.targets[0].id
            if n in ("ID", "LEVEL_TEXT", "LEVEL_NOTE", "TECHNIQUE", "DESIGN_REF"):
                try:
                    meta[n] = ast.literal_eval(node.value)
                except Exception:
                    pass
    pid = meta["ID"]
    if pid in NA:
        continue
    claimed.add(pid)
    checks.append({
        "property_id": pid,
        "quick_cmd": "./check %s --tier quick" % pid,
        "thorough_cmd": "./check %s --tier thorough" % pid,
        "evidence_file": "evidence/%s.json" % pid,
        "replay_cmd_template": "./check %s --replay {path}" % pid,
        "engine": "symx",
        "level_claimed": {"category": "other", "text": meta.get("LEVEL_TEXT", ""), "design_ref": meta.get("DESIGN_REF", "DESIGN.md section 4 (%s)" % pid)},
        "level_note": meta.get("LEVEL_NOTE", ""),
        "technique": meta.get("TECHNIQUE", "bounded symbolic execution of the real Python source with z3 (symx)"),
    })
na = [{"property_id": p["id"], "reason": NA.get(p["id"], "check not built yet in this session; see DESIGN.md section 6 for the plan")} for p in props if p["id"] not in claimed]
M = {
    "version": 1,
    "setup_cmd": "./bootstrap.sh",
    "hooks": {"guard": "MYST_PARSER_VERIF", "enable": "none needed: the checks instrument private copies of the modules at load time (symx.instrument); no hook code lives in /repo",
              "baseline_off_cmd": "cd /repo && /venv/bin/python -m pytest -ra -q -p no:cacheprovider --timeout=900 --continue-on-collection-errors", "source_commits": [], "add_only": True},
    "engines": [{"name": "symx", "path": "symx/", "serves_properties": sorted(claimed), "kind_free_text": "purpose-built symbolic executor for Python source: AST instrumentation of the current working tree at load, SStr/SInt/SBool proxies over z3 terms, DFS path exploration by re-execution with an incremental z3 solver, differential execution against instrumented reference implementations, replay of every counterexample on the uninstrumented code"}],
    "checks": checks,
    "not_applicable": na,
    "notes": "Exit codes: 0 = every obligation unsat on every path of every required family and the trees were exhausted; 1 = replayed violation (VIOLATION line); 3 = harness error / inconclusive (never reported as a violation). Known genuine defects: known_findings.json.",
}
json.dump(M, open(os.path.join(HERE, "MANIFEST.json"), "w"), indent=1)
print("claimed:", sorted(claimed), "n/a:", [x["property_id"] for x in na])
