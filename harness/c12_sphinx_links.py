"""C12 — Sphinx cross-document links resolve to the right URI or warn exactly once.

Encoded: SphinxRenderer.render_link_unknown/render_link_project/render_link_path/_handle_relative_docs
(mdit_to_docutils/sphinx_.py), MystParser.parse (parsers/sphinx_.py), MystReferenceResolver (sphinx_ext/myst_refs.py) —
instrumented copies are installed in place of the real modules while a REAL Sphinx application builds the project.
"""
from __future__ import annotations

import io
import os
import posixpath
import sys
import tempfile
from contextlib import contextmanager

from symx import core
from symx.driver import Family
from symx.instrument import load_instrumented
from harness import common_render as CR

ID = "C12"
TECHNIQUE = "solver-enumerated multi-document Sphinx projects built by the real Sphinx application with instrumented MyST modules (symx); resolved doctrees compared with URIs computed independently from the project description"
LEVEL_TEXT = ("For every project of the bounded project grammar (6 Markdown documents at directory depths 0-2 incl. same-named documents in different directories, titles, one sub-heading whose slug differs from its id, one explicit label, one non-document file, nitpick_ignore_regex entries that are only prefixes of the missing names) and every link "
              "from one document to another in every spelling (relative path with/without './' and '../', leading '/', with/without extension, with '#heading-anchor', <project:...>, <path:...>, "
              "'#label' across documents, explicit vs empty text, missing document / anchor / label) the resolved doctree is compared with the expectation computed from the project description: "
              "URI relative to the referencing page, link text = explicit text or target title, exactly one myst.xref_missing warning naming an unresolvable destination, text still rendered.")
LEVEL_NOTE = ("Degenerate (concrete projects after the solver's choices). Real Sphinx (environment, builder URI computation) runs natively and is trusted for get_relative_uri; the expectation is "
              "computed with posixpath only. One Sphinx build per path: bounds are small.")
BUDGET_S = {"quick": 280, "thorough": 1500}
SOFT_BUDGET_S = {"quick": 120, "thorough": 900}
EXPLANATION = "Project grammar -> files on disk (temporary directory) -> Sphinx html build with instrumented MyST modules -> env.get_and_resolve_doctree -> reference nodes vs expected URIs/texts/warnings."
ASSUMPTIONS = ["html builder URI rule: page 'd/n' is 'd/n.html'; relative URIs are computed from the referencing page's directory", "heading anchors enabled to depth 2"]
OUTSIDE = ["builders other than html", "intersphinx", "projects larger than the grammar", "domains other than std/doc"]
STUBS = []
NONTRIVIAL_RULE = "paths whose link crosses directories or carries an anchor/label and resolves"

S = {}
DOCS = ["index", "a", "sub", "sub/b", "sub/a", "sub/deep/c"]  # note: document "sub" has a sibling directory "sub/"; "sub/a" shares its relative name with the root document "a"


def anchor_written(doc):
    """The heading anchor as a link writes it (the slug keeps '_'); the section id docutils assigns differs ('_' -> '-')."""
    return "sub_heading-" + doc.replace("/", "-") + "-\u00fc\u00df"  # non-ASCII (percent-encoded by markdown-it in the link); lower() keeps the sharp s, casefold() would not


def anchor_id(doc):
    return "sub-heading-" + doc.replace("/", "-") + "-u"  # docutils' make_id transliterates


def setup():
    if S:
        return
    CR.setup()
    mods = load_instrumented(["myst_parser.mdit_to_docutils.sphinx_", "myst_parser.parsers.sphinx_", "myst_parser.sphinx_ext.myst_refs"], using=CR.R)
    S.update(mods)


@contextmanager
def swapped(real):
    if real:
        yield
        return
    saved = {}
    for name, mod in S.items():
        saved[name] = sys.modules.get(name)
        sys.modules[name] = mod
    try:
        yield
    finally:
        for name, mod in saved.items():
            if mod is None:
                sys.modules.pop(name, None)
            else:
                sys.modules[name] = mod


def slug(title):
    return title.lower().replace(" ", "-")


def project(c):
    """Choose a project + one link.  Returns spec dict."""
    src = c.pick(DOCS)
    dst = c.pick([d for d in DOCS if d != src])
    titles = {d: "Title %s" % d.replace("/", " ") for d in DOCS}
    spelling = c.pick(["rel", "dot-rel", "abs", "noext", "project", "project-abs", "label", "label-missing", "missing-doc", "path-file", "rel-file", "anchor", "anchor-missing", "project-anchor", "self-anchor", "dup-anchor", "path-file-image", "project-missing", "excluded-doc", "label-missing-upper", "self-file-foreign-label", "rel-file-noext", "anchor-missing-noslugs"])
    explicit = bool(c.choose(2))
    srcdir = posixpath.dirname(src)
    rel = posixpath.normpath(posixpath.join(posixpath.relpath(posixpath.dirname(dst) or ".", srcdir or "."), posixpath.basename(dst)))
    kind = "doc"
    anchor = None
    if spelling == "rel":
        dest = rel + ".md"
    elif spelling == "dot-rel":
        dest = ("./" + rel + ".md") if not rel.startswith("..") else rel + ".md"
    elif spelling == "abs":
        dest = "/" + dst + ".md"
    elif spelling == "noext":
        dest = rel
    elif spelling == "project":
        dest = "project:" + rel + ".md"
    elif spelling == "project-abs":
        dest = "project:/" + dst + ".md"
    elif spelling == "label":
        dest = "#Lbl-" + dst.replace("/", "-")  # labels are case-insensitive: written with a capital, stored normalised
        kind = "label"
    elif spelling == "label-missing":
        dest = "#lbl-nosuch"
        kind = "missing"
    elif spelling == "label-missing-upper":
        dest = "#Lbl-NoSuch"  # the warning and the fallback text name the target as it was written
        kind = "missing"
    elif spelling == "self-file-foreign-label":
        # the page's own file with a fragment that is a label of ANOTHER document: not an anchor of this page
        dest = posixpath.basename(src) + ".md#lbl-" + dst.replace("/", "-")
        kind = "missing-anchor"
    elif spelling == "missing-doc":
        dest = posixpath.relpath("nosuch/zz", srcdir or ".") + ".md"
        kind = "missing"
    elif spelling == "project-missing":
        dest = "project:" + posixpath.relpath("nosuch/zz", srcdir or ".") + ".md"
        kind = "missing"
    elif spelling == "excluded-doc":
        # a Markdown file that exists but is excluded from the project
        dest = posixpath.relpath("excluded", srcdir or ".") + ".md"
        kind = "missing"
    elif spelling == "path-file":
        dest = "path:" + posixpath.relpath("assets/data.txt", srcdir or ".")
        kind = "file"
    elif spelling == "path-file-image":
        dest = "path:" + posixpath.relpath("assets/data.txt", srcdir or ".")
        kind = "file"
    elif spelling == "rel-file":
        dest = posixpath.relpath("assets/data.txt", srcdir or ".")
        kind = "file"
    elif spelling == "rel-file-noext":
        # an existing non-document file whose name has no extension
        dest = posixpath.relpath("assets/LICENSE", srcdir or ".")
        kind = "file"
    elif spelling == "anchor-missing-noslugs":
        # a document without any heading (it records no slugs at all): a fragment of it is still a missing anchor
        dest = posixpath.relpath("plain", srcdir or ".") + ".md#no-such-anchor"
        kind = "missing-anchor"
    elif spelling == "anchor":
        dest = rel + ".md#" + anchor_written(dst)
        anchor = anchor_id(dst)
    elif spelling == "dup-anchor":
        # the third of three headings with the same title: slug 'notes-2'
        dest = rel + ".md#notes-2"
        anchor = "<third Notes heading>"
    elif spelling == "anchor-missing":
        dest = rel + ".md#no-such-anchor"
        kind = "missing-anchor"
    elif spelling == "project-anchor":
        dest = "project:" + rel + ".md#" + anchor_written(dst)
        anchor = anchor_id(dst)
    else:  # self-anchor within the same document via path
        dest = posixpath.basename(src) + ".md#" + anchor_written(src)
        dst = src
        anchor = anchor_id(src)
    auto = spelling.startswith("project") or spelling == "path-file"
    if spelling == "path-file-image":
        # the link text is an image with empty alt text: it has no plain text, but it is explicit content
        md = "[![](assets-logo.png)](%s)" % dest
        explicit = False
    elif auto and not explicit:
        md = "<%s>" % dest
    else:
        md = "[%s](%s)" % ("my *text*" if explicit else "", dest)
    return dict(src=src, dst=dst, dest=dest, md=md, kind=kind, anchor=anchor, explicit=explicit or False, titles=titles, spelling=spelling)


def write_project(d, spec):
    os.makedirs(os.path.join(d, "assets"), exist_ok=True)
    open(os.path.join(d, "assets", "data.txt"), "w").write("data\n")
    open(os.path.join(d, "assets", "LICENSE"), "w").write("licence text\n")
    open(os.path.join(d, "plain.md"), "w").write("---\norphan: true\n---\n\njust a paragraph, no heading\n")
    open(os.path.join(d, "conf.py"), "w").write("extensions = ['myst_parser']\nmyst_heading_anchors = 2\nexclude_patterns = ['_build', 'excluded*']\nsuppress_warnings = ['toc.not_included', 'toc.not_readable']\n"
                                              # entries that are only PREFIXES of the unresolvable destinations used below: they must silence nothing
                                              "nitpick_ignore_regex = [('myst', 'lbl-no'), ('myst', r'\\.\\./nosuch'), ('myst', 'nosuch'), ('myst', '.*no-such')]\n"
                                              # for two of the source documents the reference domains exclude 'std': labels and extension-less documents still resolve
                                              + ("myst_ref_domains = ['py']\n" if spec["src"] in ("a", "sub/b") else ""))
    open(os.path.join(d, "excluded.md"), "w").write("# Excluded\n\ntext\n")
    for doc in DOCS:
        p = os.path.join(d, doc + ".md")
        os.makedirs(os.path.dirname(p), exist_ok=True)
        tag = doc.replace("/", "-")
        lines = ["(Lbl-%s)=" % tag, "# %s" % spec["titles"][doc], "", "para", "", "## Sub_heading %s \u00fc\u00df" % tag, "", "text", "", "## Notes", "", "n1", "", "## Notes", "", "n2", "", "## Notes", "", "n3", ""]
        if doc == spec["src"]:
            lines += ["LINK " + spec["md"], ""]
        if doc == "index":
            lines += ["```{toctree}", ":hidden:", ""] + [x for x in DOCS if x != "index"] + ["```", ""]
        open(p, "w").write("\n".join(lines))


def build_and_resolve(spec, real=False):
    """Returns (reference-ish nodes in the LINK paragraph as dicts, warnings text)."""
    from docutils import nodes
    from sphinx.application import Sphinx
    from sphinx.util.docutils import docutils_namespace, patch_docutils

    with tempfile.TemporaryDirectory(prefix="symx_c12_") as d:
        write_project(d, spec)
        warn = io.StringIO()
        with swapped(real), docutils_namespace(), patch_docutils(d):
            app = Sphinx(d, d, os.path.join(d, "_build"), os.path.join(d, "_build", ".doctrees"), "html", status=None, warning=warn, freshenv=True, parallel=0)
            app.build()
            build_warnings = warn.getvalue()  # resolving the doctree again below would report unresolved links a second time
            tree = app.env.get_and_resolve_doctree(spec["src"], app.builder)
            dst_tree = app.env.get_doctree(spec["dst"]) if spec["dst"] in app.env.all_docs else None
            spec["sub_ids"] = [sec["ids"][0] for sec in dst_tree.findall(nodes.section) if sec[0].astext().startswith("Sub_heading")] if dst_tree is not None else []
            spec["notes_ids"] = [sec["ids"][0] for sec in dst_tree.findall(nodes.section) if sec[0].astext() == "Notes"] if dst_tree is not None else []
        out = []
        for p in tree.findall(nodes.paragraph):
            if p.astext().startswith("LINK"):
                spec["para_text"] = p.astext()[4:].strip()
                for n in p.findall():
                    if isinstance(n, nodes.reference) or n.tagname in ("download_reference", "pending_xref"):
                        out.append(dict(tag=n.tagname, refuri=n.get("refuri"), refid=n.get("refid"), text=n.astext(), filename=n.get("filename"), reftarget=n.get("reftarget"),
                                        internal=n.get("internal"), has_image=any(isinstance(x_, nodes.image) for x_ in n.findall())))
                break
        return out, build_warnings


def expected_uri(spec):
    srcdir = posixpath.dirname(spec["src"])
    d = posixpath.dirname(spec["dst"])
    return posixpath.normpath(posixpath.join(posixpath.relpath(d or ".", srcdir or "."), posixpath.basename(spec["dst"]) + ".html"))


def check(refs, warn, spec):
    nmiss = warn.count("myst.xref_missing") + warn.count("'myst' cross-reference target not found")
    nmiss = warn.count("[myst.xref_missing]")
    kind = spec["kind"]
    if kind == "missing" and len(refs) == 0:
        # an unresolvable link need not stay a reference, but its text (or, without text, the destination) must be rendered
        if nmiss != 1:
            return ("missing-warning-count", "unresolvable link %r produced %d xref_missing warnings: %r" % (spec["md"], nmiss, warn[:300]))
        shown = spec.get("para_text", "")
        if (spec["explicit"] and "my text" not in shown) or not shown:
            return ("missing-link-text", "unresolvable link %r shows %r" % (spec["md"], shown))
        if spec["spelling"] == "label-missing-upper" and ("Lbl-NoSuch" not in warn or (not spec["explicit"] and "Lbl-NoSuch" not in shown)):
            return ("missing-warning-names-target", "unresolvable link %r: warning %r / text %r do not name the target as written" % (spec["md"], warn[:300], shown))
        return None
    if len(refs) != 1:
        return ("link-count", "link %r produced %d reference nodes: %r" % (spec["md"], len(refs), refs))
    r = refs[0]
    title = spec["titles"][spec["dst"]]
    if spec["explicit"]:
        if "my text" not in r["text"]:
            return ("explicit-text-lost", "link %r shows %r" % (spec["md"], r["text"]))
    if kind in ("doc", "label"):
        exp = expected_uri(spec)
        got = r["refuri"] or ""
        base, _, frag = got.partition("#")
        if spec["dst"] == spec["src"]:
            ok = base in ("", posixpath.basename(spec["src"]) + ".html")
        else:
            ok = base == exp
        if not ok:
            return ("wrong-uri", "link %r in %s -> %r, expected %s (+anchor)" % (spec["md"], spec["src"], got, exp))
        if spec["anchor"] == "<third Notes heading>":
            want_id = spec["notes_ids"][2] if len(spec.get("notes_ids", [])) == 3 else None
            if want_id is None or (frag != want_id and r["refid"] != want_id):
                return ("wrong-anchor", "link %r -> %r (refid %r), expected the id of the third 'Notes' section %r" % (spec["md"], got, r["refid"], want_id))
        elif spec["anchor"] is not None and spec.get("sub_ids") and frag != spec["sub_ids"][0] and r["refid"] != spec["sub_ids"][0]:
            return ("wrong-anchor", "link %r -> %r (refid %r), expected the id of the sub heading %r" % (spec["md"], got, r["refid"], spec["sub_ids"][0]))
        elif spec["anchor"] is not None and not spec.get("sub_ids") and frag != spec["anchor"] and r["refid"] != spec["anchor"]:
            return ("wrong-anchor", "link %r -> %r (refid %r), expected fragment %r" % (spec["md"], got, r["refid"], spec["anchor"]))
        if kind == "label" and frag != "lbl-" + spec["dst"].replace("/", "-"):
            return ("wrong-anchor", "label link %r -> %r" % (spec["md"], got))
        if not spec["explicit"]:
            want = title if spec["anchor"] is None else "Notes" if spec["anchor"] == "<third Notes heading>" else "Sub_heading " + spec["dst"].replace("/", "-") + " \u00fc\u00df"
            if r["text"] != want:
                return ("implicit-text", "link %r shows %r, expected the target title %r" % (spec["md"], r["text"], want))
        if nmiss:
            return ("spurious-warning", "resolvable link %r produced a warning: %r" % (spec["md"], warn[:300]))
    elif kind == "file":
        fname = posixpath.basename(spec["dest"])
        if r["tag"] != "download_reference" and not (r["refuri"] or "").endswith(fname):
            return ("file-link", "link %r to a non-document file became %r" % (spec["md"], r))
        if r["tag"] == "download_reference" and (not r["filename"] or not posixpath.normpath(r["reftarget"] or "").endswith("assets/" + fname)):
            return ("file-link", "link %r: download target %r, collected file %r (expected assets/%s)" % (spec["md"], r["reftarget"], r["filename"], fname))
        if spec["spelling"] == "path-file-image" and not r.get("has_image"):
            return ("link-content-lost", "link %r: the image that is the link's content is gone (%r)" % (spec["md"], r))
        if nmiss or "not readable" in warn.replace("image file not readable", ""):
            return ("spurious-warning", "file link %r produced a warning: %r" % (spec["md"], warn[:300]))
    else:
        if nmiss != 1:
            return ("missing-warning-count", "unresolvable link %r produced %d xref_missing warnings: %r" % (spec["md"], nmiss, warn[:300]))
        name = spec["dest"].split(":", 1)[-1] if spec["dest"].startswith("project:") else spec["dest"]
        key = name.split("#", 1)[1] if kind == "missing-anchor" else name.lstrip("#").split("#")[0]
        if spec["spelling"] == "label-missing-upper" and not spec["explicit"] and key not in r["text"]:
            return ("missing-warning-names-target", "unresolvable link %r shows %r" % (spec["md"], r["text"]))
        if key not in warn:
            return ("missing-warning-names-target", "warning %r does not name %r" % (warn[:300], key))
        if not r["text"]:
            return ("missing-link-text", "unresolvable link %r shows no text" % spec["md"])
    return None


def make(eng):
    setup()
    c = CR.Choice(eng, width=31)
    state = {}
    eng.witness_fn = lambda m: dict(state)

    def body():
        c.reset()
        spec = project(c)
        state.update(spec=spec)
        try:
            refs, warn = build_and_resolve(spec)
        except Exception as exc:  # noqa
            import traceback

            tb = traceback.extract_tb(exc.__traceback__)
            eng.fail("build-raises", "%s: %s at %s" % (type(exc).__name__, str(exc)[:200], tb[-1].name if tb else "?"))
        err = check(refs, warn, spec)
        if err:
            eng.fail(err[0], err[1])
        eng.passed(4)
        if spec["kind"] in ("doc", "label") and (posixpath.dirname(spec["src"]) != posixpath.dirname(spec["dst"]) or spec["anchor"]):
            eng.note("crossdir")
        return spec["spelling"]

    return body


def families(tier, seed):
    F = [Family("projects", make, "6 documents at depths 0-2 (a sub-directory document sharing its name with a root document; heading anchors whose slug differs from the section id); (source, destination) pairs x 19 link spellings x explicit/empty text (900 projects, one real Sphinx html build each)", nontrivial="crossdir",
                max_forks=100000, required=True)]
    return F


def replay(label, witness):
    spec = witness["spec"]
    try:
        refs, warn = build_and_resolve(spec, real=True)
    except Exception as e:  # noqa
        return ("C12/exception:%s" % type(e).__name__, "project %r: %r" % (spec, e))
    err = check(refs, warn, spec)
    if err:
        return ("C12/%s:%s" % (err[0], spec["spelling"]), "from %s: %s" % (spec["src"], err[1]))
    return None


def selftest(seed):
    return []
