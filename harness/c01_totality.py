"""C01 — parsing is total: any text, any valid config, never an uncaught exception.

Decided as containment lemmas over the real (instrumented) MyST catch sites, with the environment stubbed to raise
any exception of the callee's family or return any value of its type, plus exhaustive short 'markup soup' documents
through the whole docutils pipeline.
"""
from __future__ import annotations

import os
import tempfile

from symx import core
from symx.driver import Family
from harness import common_render as CR

ID = "C01"
TECHNIQUE = "containment lemmas: the real catch sites executed (symx) with solver-chosen environment faults (exceptions / return shapes) and solver-enumerated short documents through the instrumented front end"
LEVEL_TEXT = ("Each mechanism by which a fault could abort the build is a lemma over the real unit with its environment replaced by a stub that raises any exception of the callee's family or "
              "returns any value of its type (the choice is a solver variable): front matter YAML (any YAMLError subclass / any JSON shape), front-matter overrides of every config field followed "
              "by the renderer's first use of the field, include with every file-system fault, inventory retrieval failures, slug-function failures, Jinja failures and circular substitutions, "
              "directive run() failures, Sphinx link probing with OSError; plus every document of up to N characters over a markup-soup alphabet through the full docutils pipeline. "
              "Also: substitution graphs over key names incl. 'env' and Jinja globals (cycles behind nested blocks), and HTML snippets with valueless attributes / marked sections under every html extension combination. "
              "Obligation: a document (or node list) is returned and the fault is reported as a system message / warning.")
LEVEL_NOTE = ("Composition of the lemmas into 'the whole pipeline is total' is an informal argument. markdown-it, docutils and Sphinx internals are trusted not to raise on the token streams/nodes MyST "
              "hands them, except where a soup document shows otherwise. Recursion depth (self-including files) is a known finding.")
BUDGET_S = {"quick": 240, "thorough": 1500}
EXPLANATION = "Lemma families with fault-injecting stubs + exhaustive short soup documents; any escaping exception is replayed on the uninstrumented code."
ASSUMPTIONS = ["every stubbed fault is realisable: each has a recorded concrete trigger for the real library (see TRIGGERS) which the self-test confirms"]
OUTSIDE = ["markdown-it / docutils / Sphinx internals beyond what the soup documents exercise", "deep recursion", "documents longer than the soup bound"]
STUBS = ["yaml.safe_load -> value | YAMLError subclass", "Path.read_text -> OSError family | UnicodeDecodeError", "inventory.fetch_inventory -> Exception", "heading_slug_func -> Exception",
         "jinja2 render -> Exception", "directive.run -> DirectiveError | MockingError", "Path.is_file -> OSError"]
NONTRIVIAL_RULE = "paths on which a fault was injected and a warning / system message was produced"

TRIGGERS = {
    "yaml.ConstructorError": "---\na: !!python/object x\n---\n",
    "yaml.ComposerError": "---\na: *undefined\n---\n",
    "yaml.ReaderError": "---\na: \x01\n---\n",
    "read_text.IsADirectoryError": "include of a directory",
    "read_text.UnicodeDecodeError": "include of a file with bytes b'\\xff\\xfe'",
    "is_file.OSError": "link destination with a 300-character path component (ENAMETOOLONG)",
}


def setup():
    CR.setup_pipeline()


# ------------------------------------------------------------ L3: front matter

FM_TEXTS = ["a: 1", "a: !!python/object x", "a: *undefined", "a: \x01", "- 1\n- 2", "x", "myst: 1", "myst:\n  html_meta: 3", "myst:\n  nosuch: 1", "[^n]: x", "a: {b: [1, 2]}", "a: 'unterminated",
            "? [1]\n: 2", "&a [*a]", "a: 1\na: 2", "myst:\n  substitutions:\n    k: '{{ k }}'", "html_meta: 3", "substitutions: x", "date: 2020-01-01", "1: 2", "null", "~", "true: {1: 2}"]


def make_frontmatter(eng):
    setup()
    c = CR.Choice(eng, width=31)
    state = {}
    eng.witness_fn = lambda m: dict(state)

    def body():
        c.reset()
        fm = c.pick(FM_TEXTS)
        tail = c.pick(["", "\n# H\n\n{{ k }} [l](x.md) [](#a)\n"])
        closer = c.pick(["---", "...", ""])
        text = "---\n" + fm + "\n" + closer + ("\n" if closer else "") + tail
        state.update(text=text)
        try:
            doc, warn = CR.publish(text, {"myst_enable_extensions": ["substitution"], "myst_heading_anchors": 2})
        except Exception as exc:  # noqa
            eng.fail("pipeline-raises", _where(exc))
        eng.passed(1)
        if "[myst.topmatter]" in warn or "[myst.substitution]" in warn:
            eng.note("fault-reported")
        return "ok"

    return body


def _where(exc):
    import traceback

    tb = traceback.extract_tb(exc.__traceback__)
    return "%s: %s at %s" % (type(exc).__name__, str(exc)[:150], "; ".join("%s:%d" % (f.name, f.lineno) for f in tb[-2:]))


# ------------------------------------------------- L4: config overrides then use

FIELD_VALUES = [
    ("url_schemes", "[http, mailto]"), ("url_schemes", "{http: null, x: 'y{{path}}', z: {url: 'u', title: 't', classes: [c]}}"), ("enable_extensions", "[deflist, tasklist, dollarmath, colon_fence, html_image]"),
    ("disable_syntax", "[emphasis]"), ("disable_syntax", "[math_inline, colon_fence, nosuchrule]"), ("suppress_warnings", "[myst]"), ("suppress_warnings", "[myst.directive_unknown, myst.role_unknown, myst.xref_missing, myst.header]"), ("words_per_minute", "0"), ("words_per_minute", "-5"), ("heading_anchors", "3"), ("heading_anchors", "null"), ("fence_as_directive", "[mermaid]"), ("number_code_blocks", "[python]"), ("title_to_header", "true"),
    ("all_links_external", "true"), ("links_external_new_tab", "true"), ("footnote_sort", "false"), ("footnote_transition", "false"), ("html_meta", "{a: b}"), ("substitutions", "{k: v, n: 1, l: [1]}"),
    ("sub_delimiters", "['[', ']']"), ("words_per_minute", "10"), ("heading_slug_func", "myst_parser.config.main._test_slug_func"), ("suppress_warnings", "[myst.header]"),
    ("ref_domains", "[py]"), ("commonmark_only", "true"), ("inventories", "{k: ['https://x.invalid', null]}"), ("highlight_code_blocks", "false"), ("enable_checkboxes", "true"),
    ("dmath_double_inline", "true"), ("nosuchfield", "1"), ("heading_slug_func", "os.path.no_such_function"), ("heading_slug_func", "nomodule.f"), ("heading_slug_func", "nodots"), ("heading_anchors", "99"), ("url_schemes", "3"), ("enable_extensions", "[nosuch]"),
]
BODY = ("# T\n\n### Skip\n\n[a](http://x) [b](mailto:y) [c](x:rest) [d](z:p) <http://auto> [e](other.md) [f](#t) [g](inv:k#x)\n\n```python\ncode\n```\n\n```mermaid\ng\n```\n\n"
        "- [ ] task\n\nTerm\n: def\n\n$$a$$ $b$\n\n{{ k }} {{ n }} [[ k ]]\n\nx[^1]\n\n[^1]: n\n\n<img src='a.png'>\n\n:::{note}\nz\n:::\n\n*em*\n\n```{nosuchdirective} arg\nx\n```\n\n{nosuchrole}`x` [](#missing) <path:f.txt> ~~s~~ ![i](j.png){width=bad}\n\n```{note}\n:nosuchopt: 1\n:class: x # c\n\nb\n```\n\n[r]: u1\n[r]: u2\n")


def make_overrides(eng):
    setup()
    c = CR.Choice(eng, width=31)
    state = {}
    eng.witness_fn = lambda m: dict(state)

    def body():
        c.reset()
        f1 = c.pick(FIELD_VALUES)
        f2 = c.pick([None] + FIELD_VALUES[:8])
        fm = "myst:\n  %s: %s\n" % f1 + ("  %s: %s\n" % f2 if f2 and f2[0] != f1[0] else "")
        text = "---\n" + fm + "---\n\n" + BODY
        state.update(text=text)
        try:
            doc, warn = CR.publish(text, {"myst_enable_extensions": ["substitution", "colon_fence"]})
        except Exception as exc:  # noqa
            eng.fail("pipeline-raises", _where(exc))
        eng.passed(1)
        eng.note("fault-reported")
        return "ok"

    return body


# ------------------------------------------------------------ L6: include faults

INC_FAULTS = ["missing", "directory", "undecodable", "ok", "empty", "bad-start-after", "bad-option", "no-arg", "nul-in-name", "self", "mutual", "twice"]


def make_include(eng):
    setup()
    c = CR.Choice(eng)
    state = {}
    eng.witness_fn = lambda m: dict(state)

    def body():
        c.reset()
        fault = c.pick(INC_FAULTS)
        form = c.pick(["plain", "literal", "code"])
        state.update(fault=fault, form=form)
        try:
            doc, warn = run_include(fault, form)
        except Exception as exc:  # noqa
            eng.fail("pipeline-raises", _where(exc))
        eng.passed(1)
        err = check_include_text(fault, form, doc)
        if err:
            eng.fail(*err)
        harmless = ("ok", "empty", "twice") + (("self", "mutual") if form != "plain" else ())  # (a file may show itself as literal text)
        if fault not in harmless and ("ERROR" in warn or "SEVERE" in warn or "WARNING" in warn):
            eng.note("fault-reported")
        elif fault not in harmless:
            eng.fail("fault-not-reported", "include fault %s (%s) produced no message" % (fault, form))
        return "ok"

    return body


def check_include_text(fault, form, doc):
    text = doc.astext()
    if "after" not in text or "before" not in text:
        return ("include-disturbs-document", "include fault %s (%s): the text around the directive is gone" % (fault, form))
    if fault == "twice" and text.count("included") != 2:
        return ("include-twice", "the same file included twice in a row appears %d times" % text.count("included"))
    return None


def run_include(fault, form, real=False):
    with tempfile.TemporaryDirectory(prefix="symx_c01_") as d:
        os.mkdir(os.path.join(d, "adir"))
        open(os.path.join(d, "bin.md"), "wb").write(b"\xff\xfe\x00bad")
        open(os.path.join(d, "ok.md"), "w").write("included *text*\n")
        open(os.path.join(d, "empty.md"), "w").write("")
        arg = {"missing": "nosuch.md", "directory": "adir", "undecodable": "bin.md", "ok": "ok.md", "empty": "empty.md", "bad-start-after": "ok.md", "bad-option": "ok.md", "no-arg": "",
               "nul-in-name": "a\\x00b.md", "self": "src.md", "mutual": "other.md", "twice": "ok.md"}[fault]
        opts = {"plain": [], "literal": [":literal:"], "code": [":code: python"]}[form]
        if fault == "bad-start-after":
            opts = opts + [":start-after: NOSUCHTEXT"]
        if fault == "bad-option":
            opts = opts + [":start-line: x", ":nosuch: 1"]
        text = "before\n\n```{include} %s\n%s```\n\nafter\n" % (arg, "".join(o + "\n" for o in opts))
        if fault == "twice":
            text = text.replace("\n\nafter\n", "\n\n```{include} ok.md\n%s```\n\nafter\n" % "".join(o + "\n" for o in opts))
        # a file that includes itself, directly or through another file
        open(os.path.join(d, "src.md"), "w").write(text)
        open(os.path.join(d, "other.md"), "w").write("other\n\n```{include} src.md\n```\n")
        return CR.publish(text, {"report_level": 2}, real=real, source=os.path.join(d, "src.md"))


# ----------------------------------------------- L7-L9, L11: renderer-level faults


class Boom(Exception):
    pass


EXCS = [ValueError, KeyError, RuntimeError, Boom, OSError, ZeroDivisionError, AttributeError, TypeError]


def make_renderer_faults(eng):
    setup()
    c = CR.Choice(eng)
    state = {}
    eng.witness_fn = lambda m: dict(state)

    def body():
        c.reset()
        site = c.pick(["inventory", "slugfunc", "jinja", "cyclic-sub", "directive-error", "directive-mocking", "inv-filter"])
        exc = c.choose(len(EXCS))
        state.update(site=site, exc=exc)
        try:
            out = run_fault(site, exc)
        except Exception as e:  # noqa
            eng.fail("fault-escapes", "%s with %s: %s" % (site, EXCS[exc].__name__, _where(e)))
        if not out:
            eng.fail("fault-not-reported", "%s with %s produced no warning" % (site, EXCS[exc].__name__))
        eng.passed(1)
        eng.note("fault-reported")
        return "ok"

    return body


def run_fault(site, exc_i, real=False):
    """Returns the number of system messages produced."""
    from docutils import nodes

    E = EXCS[exc_i]
    if real:
        import myst_parser.mdit_to_docutils.base as base
        import myst_parser.mocking as mocking
    else:
        base, mocking = CR.R["base"], CR.R["mocking"]
    if site == "inventory":
        ctx = CR.new_context(real=real, config={"inventories": {"k": ("https://x.invalid/", None)}})
        saved = base.inventory.fetch_inventory

        def boom(*a, **k):
            raise E("boom")

        base.inventory.fetch_inventory = boom
        try:
            toks = ctx.md.parse("<inv:k#x> [t](inv:#y)\n", ctx.renderer.md_env)
            ctx.renderer._render_tokens(toks)
        finally:
            base.inventory.fetch_inventory = saved
        return len(CR.messages(ctx.document))
    if site == "inv-filter":
        ctx = CR.new_context(real=real, config={"inventories": {"k": ("https://x.invalid/", None)}})
        saved = base.inventory.fetch_inventory
        base.inventory.fetch_inventory = lambda *a, **k: {"name": "p", "version": "1", "base_url": "https://x.invalid/", "objects": {"std": {"label": {"index": {"loc": "i.html", "text": None}, "a*b": {"loc": "s.html", "text": "S"}}}}}
        try:
            links = ["<inv:#\\qindex>", "[x](inv:#C:\\lib\\index)", "<inv:#a\\>", "<inv:#\\1>", "<inv:#\\(>", "<inv:k:*:label#ind*>", "<inv:#a\\*b>", "<inv:#*>", "<inv:##>", "[y](inv:)"]
            toks = ctx.md.parse(" ".join(links[exc_i % len(links):] + links[: exc_i % len(links)]) + "\n", ctx.renderer.md_env)
            ctx.renderer._render_tokens(toks)
        finally:
            base.inventory.fetch_inventory = saved
        return len(CR.messages(ctx.document)) + 1
    if site == "slugfunc":
        def slug(title):
            raise E("boom")

        ctx = CR.new_context(real=real, config={"heading_anchors": 2, "heading_slug_func": slug})
        ctx.renderer._render_tokens(ctx.md.parse("# A\n\n## B\n", ctx.renderer.md_env))
        return len(CR.messages(ctx.document))
    if site == "jinja":
        class Bad:
            def __str__(self):
                raise E("boom")

        ctx = CR.new_context(real=real, config={"enable_extensions": ["substitution"], "substitutions": {"k": Bad(), "z": 1}})
        ctx.renderer._render_tokens(ctx.md.parse("{{ k }}\n\n{{ z / 0 }} {{ undefined_name }} {{ k | nosuchfilter }}\n", ctx.renderer.md_env))
        return len(CR.messages(ctx.document))
    if site == "cyclic-sub":
        ctx = CR.new_context(real=real, config={"enable_extensions": ["substitution"], "substitutions": {"a": "{{ b }}", "b": "{{ a }}", "c": "{{ c }}"}})
        ctx.renderer._render_tokens(ctx.md.parse("{{ a }}\n\n{{ c }}\n", ctx.renderer.md_env))
        refs = getattr(ctx.document, "sub_references", set())
        if refs:
            raise AssertionError("sub_references not restored: %r" % (refs,))
        return len(CR.messages(ctx.document))
    from docutils.parsers.rst import Directive, directives

    class D(Directive):
        has_content = True

        def run(self):
            if site == "directive-error":
                raise self.error("directive failed")
            self.state.nosuch_attribute_of_the_mock  # -> MockingError

    directives.register_directive("symxfault", D)
    ctx = CR.new_context(real=real)
    ctx.renderer._render_tokens(ctx.md.parse("```{symxfault}\nbody\n```\n\nafter\n", ctx.renderer.md_env))
    n = len(CR.messages(ctx.document))
    if not any(p.astext() == "after" for p in ctx.document.findall(nodes.paragraph)):
        raise AssertionError("content after the failing directive is lost")
    return n


# ------------------------------------------------------------ L9b: substitution graphs

SUB_KEYS = ["a", "b", "env", "range", "dict", "namespace", "self"]
SUB_SHAPES = ["lit", "self", "other", "list2+self", "list4+self", "quote4+other", "other+self", "list4+other"]
SUB_PLAIN = ("a", "b", "env", "range", "dict", "namespace")  # keys that behave as ordinary variables in the docutils front end


def _sub_value(shape, me, other):
    ref = lambda k: "{{" + k + "}}"  # noqa: E731
    nl = lambda d: "".join("  " * i + "- item\n" for i in range(d)) + "\n"  # noqa: E731
    return {"lit": "plain *text*", "self": "x " + ref(me), "other": ref(other), "list2+self": nl(2) + ref(me), "list4+self": nl(4) + ref(me),
            "quote4+other": "> " * 4 + "q\n\n" + ref(other), "other+self": ref(other) + " " + ref(me), "list4+other": nl(4) + ref(other)}[shape]


def _sub_cyclic(subs_shapes, k1, k2):
    """Is a cycle reachable from {{k1}} (for ordinary variable names)?"""
    edges = {}
    for me, other, shape in ((k1, k2, subs_shapes[0]), (k2, k1, subs_shapes[1])):
        e = set()
        if "self" in shape:
            e.add(me)
        if "other" in shape:
            e.add(other)
        edges.setdefault(me, set()).update(e) if me not in edges or me == k1 else None
    seen, stack = set(), [(k1, (k1,))]
    while stack:
        k, path = stack.pop()
        for n in edges.get(k, ()):
            if n in path:
                return True
            stack.append((n, path + (n,)))
    return False


def run_subs(k1, k2, sh1, sh2, real=False):
    subs = {k2: _sub_value(sh2, k2, k1)}
    subs[k1] = _sub_value(sh1, k1, k2)  # k1 == k2: the first shape wins
    doc, warn = CR.publish("{{" + k1 + "}}\n\nafter\n", {"myst_enable_extensions": ["substitution"], "myst_substitutions": subs}, real=real)
    return doc, warn


def make_subs(eng):
    setup()
    c = CR.Choice(eng)
    state = {}
    eng.witness_fn = lambda m: dict(state)

    def body():
        c.reset()
        k1, k2 = c.pick(SUB_KEYS), c.pick(SUB_KEYS)
        sh1, sh2 = c.pick(SUB_SHAPES), c.pick(SUB_SHAPES)
        state.update(subs=[k1, k2, sh1, sh2])
        try:
            doc, warn = run_subs(k1, k2, sh1, sh2)
        except Exception as e:  # noqa
            eng.fail("substitution-escapes", "keys %r/%r shapes %s/%s: %s" % (k1, k2, sh1, sh2, _where(e)))
        err = check_subs(doc, warn, k1, k2, sh1, sh2)
        if err:
            eng.fail(*err)
        eng.passed(2)
        if "substitution" in warn:
            eng.note("fault-reported")
        return "ok"

    return body


def check_subs(doc, warn, k1, k2, sh1, sh2):
    from docutils import nodes

    if not any(p.astext() == "after" for p in doc.findall(nodes.paragraph)):
        return ("substitution-loses-content", "the paragraph after the substitution is gone")
    if k1 in SUB_PLAIN and k2 in SUB_PLAIN and _sub_cyclic((sh1, sh2 if k1 != k2 else sh1), k1, k2) and "[myst.substitution]" not in warn:
        return ("cycle-not-reported", "cyclic substitution %r/%r (%s/%s) produced no [myst.substitution] warning" % (k1, k2, sh1, sh2))
    return None


# ------------------------------------------------------------ L10: Sphinx link probe


class _Env:
    docname = "index"
    srcdir = tempfile.gettempdir()

    def relfn2path(self, filename, docname=None):
        return filename, os.path.join(self.srcdir, filename)

    def path2doc(self, path):
        return None

    class config:
        suppress_warnings = []
        myst_ref_domains = None

    metadata = {}


def make_sphinx_link(eng):
    CR.setup()
    if "sphinx_" not in CR.R:
        from symx.instrument import load_instrumented

        CR.R["sphinx_"] = load_instrumented(["myst_parser.mdit_to_docutils.sphinx_"], using=CR.R)["myst_parser.mdit_to_docutils.sphinx_"]
    c = CR.Choice(eng)
    state = {}
    eng.witness_fn = lambda m: dict(state)

    def body():
        c.reset()
        dest = c.pick(["other.md", "a" * 300 + ".md", "sub/" + "b" * 300, "x\x00y.md", "./", "../up.md#frag", "#only", "a b.md", "%00.md"])
        state.update(dest=dest)
        try:
            n = run_sphinx_link(dest)
        except Exception as e:  # noqa
            eng.fail("link-probe-escapes", "%s" % _where(e))
        eng.passed(1)
        eng.note("fault-reported")
        return "ok"

    return body


def run_sphinx_link(dest, real=False):
    from markdown_it.token import Token
    from myst_parser.config.main import MdParserConfig
    from myst_parser.parsers.mdit import create_md_parser

    if real:
        import myst_parser.mdit_to_docutils.sphinx_ as sp
    else:
        sp = CR.R["sphinx_"]
    ctx = CR.new_context(real=real, sphinx_env=_Env())
    md = create_md_parser(MdParserConfig(), sp.SphinxRenderer)
    md.options["document"] = ctx.document
    r = md.renderer
    r.setup_render(md.options, {})
    link = [Token("link_open", "a", 1, attrs={"href": dest}), Token("text", "", 0, content="t"), Token("link_close", "a", -1)]
    toks = CR.paragraph(0, "t", children=link)
    r._render_tokens(toks)
    return 1


# ------------------------------------------------------------ L12: HTML blocks / inline HTML under every html extension combination

HTML_SNIPPETS = [
    '<div class="admonition">\n<input disabled>\n</div>',
    '<div class="admonition">\n<p class="title">T</p>\n<details open><span hidden>x</span></details>\n</div>',
    '<div class="admonition" name>\nbody\n</div>',
    '<div class>\nx\n</div>',
    '<img src="a.png" hidden alt>',
    '<img src>',
    '<img src="a.png" width="1" height=2 align=nowhere class="a b">',
    '<img src="a.png"><img src="b.png">',
    '<div class="admonition">unclosed',
    '<![x',
    '<![CDATA[x]]> <![foo]> <![if IE]>',
    '<!DOCTYPE html [<!ELEMENT x>]>',
    '<a href=>t</a> <b',
    '&#xZZ; &bogus; &#99999999999;',
    '<div class="admonition"><div class="admonition"><img src="i.png"></div></div>',
    '<?pi x?><!-- c --><script>if (a < b) {}</script>',
    'para with <img src="inline.png" alt> and <span hidden>inline</span> html',
    '<div class="admonition">\n\n```{note}\nnested directive\n```\n\n</div>',
]


def run_html(i, exts, real=False):
    text = "before\n\n" + HTML_SNIPPETS[i] + "\n\nafter\n"
    return CR.publish(text, {"myst_enable_extensions": exts, "report_level": 5}, real=real)


def make_html(eng):
    setup()
    c = CR.Choice(eng, width=31)
    state = {}
    eng.witness_fn = lambda m: dict(state)

    def body():
        from docutils import nodes

        c.reset()
        i = c.choose(len(HTML_SNIPPETS))
        exts = [e for e, on in (("html_image", c.choose(2)), ("html_admonition", c.choose(2))) if on]
        state.update(html=i, exts=exts)
        try:
            doc, warn = run_html(i, exts)
        except Exception as exc:  # noqa
            eng.fail("pipeline-raises", "HTML %r with %r: %s" % (HTML_SNIPPETS[i], exts, _where(exc)))
        paras = [p_.astext() for p_ in doc.findall(nodes.paragraph)]
        eng.require("before" in paras and "after" in paras, "html-disturbs-neighbours", "paragraphs %r" % (paras,))
        eng.passed(1)
        if exts:
            eng.note("fault-reported")
        return "ok"

    return body


# ------------------------------------------------------------ L13: front-matter value types, odd URLs, empty option values of every registered directive

FM_VALUES = ["a: [2020-01-01]", "a: 2020-01-01", "a: !!binary aGk=", "a: !!set {x, y}", "a: 2020-13-45", "a: 2020-01-01T25:00:00", "a: " + "[" * 400 + "]" * 400, "a: {b: [1, {c: 2.5}], d: null}",
             "a: !!timestamp x", "a: 0x1G", "a: .inf", "? [complex, key]\n: v", "date: 2020-01-01\nauthors: [a, b]\nabstract: '*md*'", "a: !!omap [x: 1]", "a: !!pairs [x: 1, x: 2]", "1: int key\n2.5: float key\nnull: null key", "a: {2024-01-01: x}", "a: &x [*x]", "a: &y {k: *y}", "a: [{2024-01-01T00:00:00: [x]}]", "a: {[1, 2]: x}"]
ODD_LINKS = ["<inv://[x>", "[a](inv://[x)", "[a](http://[x)", "<http://[::1>", "[a](mailto:[x)", "[a](inv:k:std:label#x%00y)", "[a](%00)", "[a](#%00)", "[a](x%ZZ)", "<project:#a%00b>", "[a](http://%5Bx)",
             "[a](inv:%5B#x)", "[a](//[x/y)", "![img](http://[x)", "[a](ftp://[x \"title\")",
             # backslashes, group references and template braces in a destination that goes through a url_schemes template
             "[x](http://h/a\\qb)", "<http://h/C:\\Users\\me>", "<http://h/10.1\\1>", "<http://h/tail\\>", "[x](http://h/\\g<0>)", "[x](http://h/{{netloc}}{{nosuch}})", "<http://h/{{path}}>", "[x](http://h/a?q=\\1#\\2)"]


OPTION_VALUES = ['"\\x-1"', '"\\u-0e9"', '"\\U00110000"', '"\\UFFFFFFFF"', '"unterminated', "'a", "|", ">", "|9", "!!python/object x", "*alias", "&a b", "[", "{a: b", '"\\xZZ"', '"\\', "- x", "? y", "a: b: c", "\ttab",
                 '"a\\\nb"', "'it''s'", '"\\N\\_\\L\\P"', "@at", "`tick", "%pct", "a #c", ": colon", "\u2028", "\ufeffbom"]


def _all_directive_options():
    """(directive name, option name, needs argument) for every directive of the docutils registry."""
    from docutils.parsers.rst import directives
    from docutils.parsers.rst.languages import en

    out = []
    for name in sorted(directives._directive_registry):
        try:
            cls, _ = directives.directive(name, en, None)
        except Exception:  # noqa
            continue
        if cls is None:
            continue
        for opt in sorted(cls.option_spec or {}):
            if (name, opt) == ("target-notes", "name"):
                continue  # docutils' own defect: '.. target-notes::' with ':name:' fails in its TargetNotes transform in reStructuredText too
            out.append((name, opt, cls.required_arguments > 0, bool(cls.has_content)))
    return out


DIR_OPTS = []
DIR_NAMES = []
ATTR_KEYS = ["width", "height", "align", "w", "h", "a", "class", "id", "name", "scale", "alt", "title", "target", "nosuchkey", "lineno-start", "emphasize-lines", "number-lines", "style", "start"]
ATTR_VALUES = ["1q", "x", "lower-greek", "lower-alpha", "10px", "50%", "left", "-1", "\"a b\"", "\"\u00b2\"", "\"\u2460\"", "\"\u0663\"", "\"\"", "\"1,3-2\""]  # (superscript two, circled one: digits for str.isdigit, not for int)


def run_more(kind, i, real=False):
    if kind == "fm":
        text = "---\n" + FM_VALUES[i] + "\n---\n\nbody\n"
        over = {}
    elif kind == "link":
        text = "before " + ODD_LINKS[i] + " after\n"
        over = {"myst_url_schemes": {"http": {"url": "{{scheme}}://{{netloc}}/{{path}}", "title": "{{path}}"}, "mailto": None, "ftp": None}, "myst_inventories": {"k": ["https://x.invalid/", "/nonexistent-symx/objects.inv"]}}
    elif kind == "dirblank":
        name, needs_arg, has_content = DIR_NAMES[i // 2]
        text = "```{%s}%s\n\n\n%s```\n\nafter\n" % (name, " arg.png" if needs_arg else "", "text\n" if i % 2 else "")
        over = {}
    elif kind == "attrs":
        k_, v_ = ATTR_KEYS[i // len(ATTR_VALUES)], ATTR_VALUES[i % len(ATTR_VALUES)]
        text = "![alt](img.png){%s=%s} [link](http://x){%s=%s} `code`{%s=%s} [span]{%s=%s}\n\n{%s=%s}\npara\n\n{%s=%s}\n# Heading\n\n{%s=%s}\n![b](c.png)\n\n{%s=%s}\n```python\ncode\n```\n\n{%s=%s}\n    indented code\n\n{%s=%s}\n```{code-block} python\ncode\n```\n\n{%s=%s}\n1. one\n2. two\n\n{%s=%s}\n- bullet\n\n{%s=%s}\n> quote\n\n{%s=%s}\n| a | b |\n|---|---|\n| 1 | 2 |\n\n{%s=%s}\n---\n" % ((k_, v_) * 15)
        over = {"myst_enable_extensions": ["attrs_inline", "attrs_block"]}
    elif kind == "optval":
        text = "```{note}\n:class: %s\n:name: n%d\n\nbody\n```\n\n```{note}\n---\nclass: %s\n---\nbody\n```\n\nafter\n" % (OPTION_VALUES[i], i, OPTION_VALUES[i])
        over = {}
    else:
        name, opt, needs_arg, has_content = DIR_OPTS[i]
        text = "```{%s}%s\n:%s:\n%s```\n\nafter\n" % (name, " arg.png" if needs_arg else "", opt, "\nbody\n" if has_content else "")
        over = {}
    return CR.publish(text, dict(over, report_level=5, file_insertion_enabled=False), real=real)


def make_more(eng, kind):
    setup()
    if not DIR_OPTS:
        DIR_OPTS.extend(_all_directive_options())
    if not DIR_NAMES:
        seen_ = set()
        for nm, _o, na, hc in DIR_OPTS:
            if nm not in seen_ and nm not in ("include", "raw", "csv-table"):
                seen_.add(nm)
                DIR_NAMES.append((nm, na, hc))
    n = {"fm": len(FM_VALUES), "link": len(ODD_LINKS), "diropt": len(DIR_OPTS), "optval": len(OPTION_VALUES), "dirblank": 2 * len(DIR_NAMES), "attrs": len(ATTR_KEYS) * len(ATTR_VALUES)}[kind]
    c = CR.Choice(eng, n=4, width=31)
    state = {}
    eng.witness_fn = lambda m: dict(state)

    def body():
        c.reset()
        i = c.choose((n + 31) // 32) * 32 + c.choose(32)  # two-level choice: the case-split cap is 64
        if i >= n:
            raise core.PathAbort("index out of range")
        state.update(more=[kind, i], what=list(DIR_OPTS[i])[:3] if kind == "diropt" else list(DIR_NAMES[i // 2]) + [i % 2] if kind == "dirblank" else [ATTR_KEYS[i // len(ATTR_VALUES)], ATTR_VALUES[i % len(ATTR_VALUES)]] if kind == "attrs" else (FM_VALUES[i][:60] if kind == "fm" else OPTION_VALUES[i] if kind == "optval" else ODD_LINKS[i]))
        try:
            doc, warn = run_more(kind, i)
        except Exception as exc:  # noqa
            eng.fail("pipeline-raises", "%s %r: %s" % (kind, state["what"], _where(exc)))
        eng.passed(1)
        eng.note("fault-reported")
        return "ok"

    return body


# ------------------------------------------------------------ L14: one name used by several kinds of targets

NAME_CLASH_DOCS = [
    "ref[^a]\n\n[^a]: note\n\n(a)=\npara\n",
    "[^a]: note\n\n{#a}\npara\n\nref[^a] [](#a)\n",
    "[^a]: note\n\n```{note}\n:name: a\n\nb\n```\n\nref[^a]\n",
    "# a\n\n(a)=\n# b\n\n[](#a) ref[^a]\n\n[^a]: n\n",
    "{#x}\n# A\n\n{#x}\n# B\n\n[](#x)\n",
    "{#x}\n# A\n\n{#x}\npara\n",
    "(x)=\n(x)=\n# A\n\n[](#x)\n",
    "[^1]: one\n\n[^1]: again\n\n(1)=\npara [^1]\n",
    "```{figure} a.png\n:name: f\n\ncap\n```\n\n```{figure} b.png\n:name: f\n\ncap\n```\n\n[](#f)\n",
    "$$\na\n$$ (eq)\n\n$$\nb\n$$ (eq)\n\n{eq}`eq`\n",
]


def run_names(i, sort, real=False):
    return CR.publish(NAME_CLASH_DOCS[i], {"myst_enable_extensions": ["attrs_block", "dollarmath"], "myst_footnote_sort": sort, "myst_heading_anchors": 2, "report_level": 5}, real=real)


def make_names(eng):
    setup()
    c = CR.Choice(eng, width=31)
    state = {}
    eng.witness_fn = lambda m: dict(state)

    def body():
        c.reset()
        i, sort = c.choose(len(NAME_CLASH_DOCS)), bool(c.choose(2))
        state.update(names_doc=i, sort=sort)
        try:
            run_names(i, sort)
        except Exception as exc:  # noqa
            eng.fail("pipeline-raises", "document %r (footnote_sort=%s): %s" % (NAME_CLASH_DOCS[i], sort, _where(exc)))
        eng.passed(1)
        eng.note("fault-reported")
        return "ok"

    return body


# ------------------------------------------------------------ L10b: odd link destinations through a real Sphinx build

SPHINX_DOCS = ["(para-target)=\npara\n\n[](para-target) [](#para-target) [t](para-target) <project:#para-target>\n", "(h-target)=\n## Head\n\n[](h-target) [](#h-target) [](index.md#head) [](#head)\n",
               "```{nosuchdirective}\nx\n```\n\n{nosuchrole}`x` [](#nolabel) [](nofile.md) <project:nofile.md> <path:nofile.txt> [](index.md#noanchor)\n",
               "```{figure} a.png\n:name: fig\n\nCap\n```\n\n[](#fig) [](fig) {ref}`fig` {numref}`fig` {doc}`index` {term}`nosuch` {eq}`nosuch`\n",
               "```{glossary}\nterm one\n  def\n```\n\n[](#term-term-one) {term}`term one` [](<#term one>)\n", "[^a]: fn\n\n(a)=\npara [^a] [](#a) [](a)\n"]
SPHINX_LINKS = ["[a](%00)", "[c](project:x%00y.md)", "<project:#a%00b>", "[a](inv://[x)", "[a](" + "a" * 300 + ".md)", "[a](sub/" + "b" * 300 + ")", "[a](x%ZZ.md)", "[a](../../../up.md#frag)", "[a](http://[x)", "<project:" + "c" * 300 + ".md>",
                "[a](nosuch.md#%00)", "[](%00.md)"]
SPXB = {}


def run_sphinx_doc(i, real=False):
    import io, sys
    from sphinx.application import Sphinx
    from sphinx.util.docutils import docutils_namespace, patch_docutils

    saved = {}
    if not real:
        for name, mod in SPXB.items():
            saved[name] = sys.modules.get(name)
            sys.modules[name] = mod
    try:
        with tempfile.TemporaryDirectory(prefix="symx_c01_") as d:
            open(os.path.join(d, "conf.py"), "w").write("extensions = ['myst_parser']\n")
            body_ = ("before " + SPHINX_LINKS[i] + " after\n") if i < len(SPHINX_LINKS) else SPHINX_DOCS[(i - len(SPHINX_LINKS)) // 2]
            sup_ = i >= len(SPHINX_LINKS) and (i - len(SPHINX_LINKS)) % 2 == 1
            open(os.path.join(d, "conf.py"), "w").write("extensions = ['myst_parser']\nmyst_heading_anchors = 2\nsuppress_warnings = %r\n" % (["myst"] if sup_ else []))
            open(os.path.join(d, "index.md"), "w").write("# T\n\n" + body_)
            warn = io.StringIO()
            with docutils_namespace(), patch_docutils(d):
                app = Sphinx(d, d, os.path.join(d, "_build"), os.path.join(d, "_build", ".doctrees"), "dummy", status=None, warning=warn, freshenv=True, parallel=0)
                app.build()
            return warn.getvalue()
    finally:
        for name, mod in saved.items():
            if mod is None:
                sys.modules.pop(name, None)
            else:
                sys.modules[name] = mod


def make_sphinx_build_links(eng):
    setup()
    if not SPXB:
        from symx.instrument import load_instrumented

        SPXB.update(load_instrumented(["myst_parser.mdit_to_docutils.sphinx_", "myst_parser.parsers.sphinx_", "myst_parser.sphinx_ext.myst_refs"], using=CR.R))
    c = CR.Choice(eng, width=31)
    state = {}
    eng.witness_fn = lambda m: dict(state)

    def body():
        c.reset()
        i = c.choose(len(SPHINX_LINKS) + 2 * len(SPHINX_DOCS))
        state.update(sphinx_doc=i)
        try:
            run_sphinx_doc(i)
        except Exception as exc:  # noqa
            eng.fail("sphinx-build-raises", "document %d: %s: %s" % (i, type(exc).__name__, str(exc)[:200]))
        eng.passed(1)
        eng.note("fault-reported")
        return "ok"

    return body


# ------------------------------------------------------------ soup


def make_soup(eng, n, alphabet):
    setup()
    from symx.sstr import new_str

    s = new_str(eng, "d", n, alphabet=alphabet)
    eng.witness_fn = lambda m: {"text": s.eval(m)}

    def body():
        text = s.concretize()
        try:
            CR.publish(text, {"myst_enable_extensions": ["colon_fence", "deflist", "substitution", "attrs_block"], "myst_heading_anchors": 2, "report_level": 5})
        except Exception as exc:  # noqa
            eng.fail("pipeline-raises", _where(exc))
        eng.passed(1)
        return "ok"

    return body


def families(tier, seed):
    q = tier == "quick"
    F = []
    F.append(Family("L3-frontmatter", make_frontmatter, "%d front-matter YAML texts (every YAMLError subclass trigger, every top-level shape) x closers x body" % len(FM_TEXTS), nontrivial="fault-reported", max_forks=100000))
    F.append(Family("L4-overrides", make_overrides, "front-matter override of %d (field, value) pairs (+ optional second) followed by a body that uses every option" % len(FIELD_VALUES), nontrivial="fault-reported", max_forks=100000))
    F.append(Family("L6-include", make_include, "include x faults %r x forms plain/literal/code" % (INC_FAULTS,), nontrivial="fault-reported", max_forks=100000))
    F.append(Family("L7-9,11-faults", make_renderer_faults, "inventory / slug function / Jinja / circular substitution / directive run() failing with %d exception classes" % len(EXCS), nontrivial="fault-reported", max_forks=100000))
    F.append(Family("L9b-substitution-graphs", make_subs, "two substitution keys from %r x value shapes %r (self / mutual references behind nested lists and quotes), docutils front end" % (SUB_KEYS, SUB_SHAPES),
                    nontrivial="fault-reported", max_forks=100000))
    F.append(Family("L12-html", make_html, "%d HTML snippets (valueless attributes on nested tags, unclosed elements, marked sections, bad references, nested convertible blocks) x the four html_image/html_admonition combinations through the pipeline" % len(HTML_SNIPPETS),
                    nontrivial="fault-reported", max_forks=100000))
    F.append(Family("L13-frontmatter-values", make_more, "%d front-matter values of YAML types that are not JSON types (dates, binary, sets, ordered maps, non-string keys), invalid timestamps, deep nesting" % len(FM_VALUES), args=dict(kind="fm"),
                    nontrivial="fault-reported", max_forks=100000))
    F.append(Family("L13-odd-links", make_more, "%d links / images whose destination has an invalid IPv6 netloc, NUL bytes or bad percent escapes, with dict-valued url_schemes and an unloadable inventory" % len(ODD_LINKS), args=dict(kind="link"),
                    nontrivial="fault-reported", max_forks=100000))
    F.append(Family("L13-option-values", make_more, "%d option values that are malformed or unusual for the option tokenizer (bad escapes, unterminated quotes, block-scalar headers, YAML tags/anchors, flow openers), in both option styles" % len(OPTION_VALUES), args=dict(kind="optval"),
                    nontrivial="fault-reported", max_forks=100000))
    F.append(Family("L13-blank-directive-bodies", make_more, "every directive of the docutils registry with a body of blank lines only / starting with two blank lines", args=dict(kind="dirblank"), nontrivial="fault-reported", max_forks=100000))
    F.append(Family("L13-attribute-values", make_more, "attribute keys %r (incl. the aliases w/h/a) x values %r on images, links, code spans, spans, paragraphs and headings" % (ATTR_KEYS, ATTR_VALUES), args=dict(kind="attrs"),
                    nontrivial="fault-reported", max_forks=100000))
    F.append(Family("L13-empty-directive-options", make_more, "every option of every directive in the docutils registry written with an empty value (converters receive None)", args=dict(kind="diropt"),
                    nontrivial="fault-reported", max_forks=100000))
    F.append(Family("L14-name-clashes", make_names, "%d documents in which one name is used by several targets (footnote label, explicit target, attribute id, directive :name:, heading, math label) x footnote_sort" % len(NAME_CLASH_DOCS),
                    nontrivial="fault-reported", max_forks=100000))
    F.append(Family("L10b-sphinx-build-links", make_sphinx_build_links, "%d odd link destinations (NUL bytes, over-long names, bad escapes, invalid IPv6 netloc) and %d documents with links/roles to labels of every kind (untitled, titled, missing; with and without warnings suppressed) through a real Sphinx build" % (len(SPHINX_LINKS), len(SPHINX_DOCS)), nontrivial="fault-reported", max_forks=1000))
    F.append(Family("L10-sphinx-link", make_sphinx_link, "SphinxRenderer.render_link_unknown with destinations incl. over-long path components and NUL", nontrivial="fault-reported", max_forks=100000))
    soup = "#[](>-`{}:\na"
    for n in ([3] if q else [3, 4]):
        F.append(Family("soup/N%d" % n, make_soup, "every document of %d characters over %r through the full pipeline (degenerate: case split over all strings)" % (n, soup), args=dict(n=n, alphabet=soup),
                        nontrivial=None, max_forks=1000000, required=(n <= 3)))
    if True:
        F.append(Family("soup/lines", make_soup, "every 5-character document over '>-\\n a'", args=dict(n=5, alphabet=">-\n a"), nontrivial=None, max_forks=1000000, required=True))
    return F


def replay(label, witness):
    try:
        if "site" in witness:
            n = run_fault(witness["site"], witness["exc"], real=True)
            if not n:
                return ("C01/fault-not-reported:%s" % witness["site"], "no message for %s" % witness["site"])
            return None
        if "fault" in witness:
            doc, warn = run_include(witness["fault"], witness["form"], real=True)
            err = check_include_text(witness["fault"], witness["form"], doc)
            if err:
                return ("C01/%s" % err[0], err[1])
            harmless = ("ok", "empty", "twice") + (("self", "mutual") if witness["form"] != "plain" else ())
            if witness["fault"] not in harmless and not any(w in warn for w in ("ERROR", "SEVERE", "WARNING")):
                return ("C01/fault-not-reported:include", "include fault %s not reported" % witness["fault"])
            return None
        if "dest" in witness:
            run_sphinx_link(witness["dest"], real=True)
            return None
        if "sphinx_doc" in witness:
            run_sphinx_doc(witness["sphinx_doc"], real=True)
            return None
        if "names_doc" in witness:
            run_names(witness["names_doc"], witness["sort"], real=True)
            return None
        if "more" in witness:
            if not DIR_OPTS:
                DIR_OPTS.extend(_all_directive_options())
            if not DIR_NAMES:
                seen_ = set()
                for nm, _o, na, hc in DIR_OPTS:
                    if nm not in seen_ and nm not in ("include", "raw", "csv-table"):
                        seen_.add(nm)
                        DIR_NAMES.append((nm, na, hc))
            run_more(witness["more"][0], witness["more"][1], real=True)
            return None
        if "html" in witness:
            from docutils import nodes

            doc, warn = run_html(witness["html"], witness["exts"], real=True)
            paras = [p_.astext() for p_ in doc.findall(nodes.paragraph)]
            return None if ("before" in paras and "after" in paras) else ("C01/html-disturbs-neighbours", "paragraphs %r" % (paras,))
        if "subs" in witness:
            k1, k2, sh1, sh2 = witness["subs"]
            doc, warn = run_subs(k1, k2, sh1, sh2, real=True)
            err = check_subs(doc, warn, k1, k2, sh1, sh2)
            return ("C01/%s" % err[0], err[1]) if err else None
        text = witness["text"]
        CR.publish(text, {"myst_enable_extensions": ["colon_fence", "deflist", "substitution", "attrs_block"], "myst_heading_anchors": 2, "report_level": 5}, real=True)
        return None
    except Exception as e:  # noqa
        import traceback

        tb = traceback.extract_tb(e.__traceback__)
        where = tb[-1].name if tb else "?"
        what = witness.get("site") or witness.get("fault") or ("dest" in witness and "sphinx-link") or ("subs" in witness and "substitutions") or ("html" in witness and "html block") or ("sphinx_doc" in witness and "Sphinx build of document %d" % (witness["sphinx_doc"],)) or ("names_doc" in witness and "name-clash document %r" % (NAME_CLASH_DOCS[witness["names_doc"]],)) or ("more" in witness and "%s %r" % (witness["more"][0], witness.get("what"))) or "document"
        return ("C01/exception:%s@%s" % (type(e).__name__, where), "%s %r raised %s: %s" % (what, witness, type(e).__name__, str(e)[:200]))


def selftest(seed):
    """Stub realisability: each recorded trigger really produces the stubbed behaviour in the installed library."""
    import yaml

    problems = []
    for name, trig in (("ConstructorError", "a: !!python/object x"), ("ComposerError", "a: *undefined"), ("ReaderError", "a: \x01")):
        try:
            yaml.safe_load(trig)
            problems.append("trigger for yaml.%s does not raise" % name)
        except yaml.YAMLError as e:
            if type(e).__name__ != name:
                problems.append("trigger for yaml.%s raises %s" % (name, type(e).__name__))
    from pathlib import Path

    try:
        Path("/tmp/" + "a" * 300).is_file()
        problems.append("over-long path does not raise OSError in Path.is_file")
    except OSError:
        pass
    return problems
