"""C17 — HTML blocks: verbatim pass-through, img/admonition = directives, GFM tag filter.

Encoded: myst_parser.mdit_to_docutils.html_to_nodes (html_to_nodes, default_html, RE_FLOW filter) over the real
parse_html element classes (instrumented) and, for the option text, the real options tokenizer (instrumented).
"""
from __future__ import annotations

from symx import core
from symx.core import SBool, SInt, Unsupported, b_and, b_or, b_not
from symx.driver import Family
from symx.instrument import load_instrumented
from symx.sstr import SStr, new_str, new_int, new_bool, lift, join, contains, cp_in_ivs, ivs_of_chars, atom_eq

ID = "C17"
TECHNIQUE = "bounded symbolic execution (symx + z3) of the real html_to_nodes over symbolic element trees / attribute values, with the option text re-read by the real option tokenizer; the GFM filter regex runs in symx's regex engine against a regex-free specification"
LEVEL_TEXT = ("For every bounded HTML element tree (img / div.admonition / other elements, attributes present, absent or valueless, symbolic attribute values over characters significant to "
              "the option syntax) and every on/off combination of html_image/html_admonition, z3 shows that non-convertible HTML yields exactly one raw-HTML node holding the input text, "
              "that an <img> is handed to the image directive with its whitelisted attributes arriving unchanged when the generated option block is read back by the real option parser, "
              "that admonition title/class/name/body are carried, that a tokenizer failure degrades to one [myst.html] warning plus raw HTML, and - on symbolic text - that the GFM filter "
              "neutralises exactly the openers a regex-free specification identifies and changes nothing else; real Sphinx builds with figure-md show that html_image is forced on only inside that directive.")
LEVEL_NOTE = ("Stubs: tokenize_html returns a tree built by the real element classes from a solver-chosen event sequence, or raises; renderer.run_directive records its arguments (equality of "
              "the docutils nodes produced by the image/admonition directive with the directive spelling is outside); docutils node classes used by html_to_nodes are recording stubs.")
BUDGET_S = {"quick": 150, "thorough": 1200}
EXPLANATION = "Real html_to_nodes with stub renderer/tokenizer over symbolic trees; real options_to_items re-reads the generated option text; RE_FLOW through the symbolic regex engine."
ASSUMPTIONS = ["html.parser event contract as in C16", "run_directive(name, first_line, content, position, additional_options) forwards to parse_directive_text (C08) - options given either in the content block or as additional_options are equivalent for the directive"]
OUTSIDE = ["nodes produced by the real image/admonition directives", "inline Markdown inside admonitions", "html.parser tokenisation of the source text (C16)"]
STUBS = ["tokenize_html -> event-built tree | raises Exception", "renderer (md_config, document, reporter.error, create_warning, run_directive recorder)", "docutils.nodes.raw/literal_block -> recording stubs"]
NONTRIVIAL_RULE = "paths on which a directive was run with >= 1 option, or the GFM filter rewrote >= 1 opener"

M = {}
GFM_TAGS = ["iframe", "noembed", "noframes", "plaintext", "script", "style", "title", "textarea", "xmp"]


def setup():
    if M:
        return
    M.update(load_instrumented(["myst_parser.parsers.parse_html", "myst_parser.mdit_to_docutils.html_to_nodes", "myst_parser.parsers.options"]))
    M["myst_parser.mdit_to_docutils.html_to_nodes"].nodes = StubNodes


def T(v):
    return v if isinstance(v, bool) else bool(v)


def _eq(a, b):
    if isinstance(a, SStr) or isinstance(b, SStr):
        if a is None or b is None:
            return False
        return SStr.of(a)._eq(b)
    return a == b


class RawNode:
    def __init__(self, rawsource="", text="", **attrs):
        self.rawsource, self.text, self.attrs = rawsource, text, attrs
        self.source = None
        self.line = None


class LitBlock(RawNode):
    pass


class StubNodes:
    raw = RawNode
    literal_block = LitBlock

    class Element:
        pass

    class system_message:
        pass

    document = object


class Msg:
    def __init__(self, kind, text, line):
        self.kind, self.text, self.line = kind, text, line


class StubRenderer:
    def __init__(self, gfm, exts):
        self.md_config = type("Cfg", (), {"gfm_only": gfm, "enable_extensions": exts})()
        self.document = {"source": "src.md"}
        self.calls = []
        self.warnings = []
        self.errors = []
        rend = self

        class Rep:
            def error(self, msg, *children, line=None):
                m = Msg("error", msg, line)
                rend.errors.append(m)
                return m

            def warning(self, msg, *children, line=None, **kw):
                m = Msg("untyped-warning", msg, line)
                rend.errors.append(m)
                return m

            info = warning

        self.reporter = Rep()

    def create_warning(self, message, subtype, *, line=None, append_to=None):
        m = Msg("warning", message, line)
        m.subtype = subtype
        self.warnings.append(m)
        return m

    def run_directive(self, name, first_line, content, position, additional_options=None):
        self.calls.append((name, first_line, content, position, additional_options))
        return [("directive", len(self.calls) - 1)]


def effective_options(eng, opts_mod, content, additional):
    """(key -> value) the directive would receive: option block of `content` read by the REAL option parser, over additional_options.
    Returns (dict, body_text) or raises."""
    opts = dict(additional or {})
    body = content
    if len(content) and T(content.lstrip().startswith(":")):
        lines = content.splitlines()
        ylines = []
        while lines and T(lines[0].lstrip().startswith(":")):
            ylines.append(lines.pop(0).lstrip()[1:])
        items, _ = opts_mod.options_to_items(join("\n", ylines))
        for k, v in items:
            opts[k if isinstance(k, str) else k.concretize()] = v
        body = join("\n", lines)
    return opts, body


IMG_ATTRS = ["src", "alt", "class", "width", "onclick", "name"]
WHITELIST = {"class", "alt", "height", "width", "align", "name"}


def make_img(eng, nval, alphabet, nattr):
    h2n = M["myst_parser.mdit_to_docutils.html_to_nodes"]
    ph = M["myst_parser.parsers.parse_html"]
    opts_mod = M["myst_parser.parsers.options"]
    src_state = new_int(eng, "src_state", 0, 2)  # 0 present, 1 absent, 2 valueless
    asel = [new_int(eng, "attr%d" % i, 1, len(IMG_ATTRS) - 1) for i in range(nattr)]
    vals = [new_str(eng, "v%d" % i, nval, alphabet=alphabet) for i in range(nattr)]
    vlen = [new_int(eng, "vl%d" % i, 0, nval) for i in range(nattr)]
    vnone = [new_bool(eng, "vn%d" % i) for i in range(nattr)]
    src = new_str(eng, "src", 2, alphabet="a/ .")
    img_on = new_bool(eng, "html_image")
    adm_on_other = new_bool(eng, "html_admonition_other")
    kind = new_int(eng, "kind", 0, 2)  # 0 <img ...>, 1 <img .../>, 2 img followed by <p>
    state = {}

    def wit(m):
        return {"src_state": eng.eval_model(m, src_state), "src": eng.eval_model(m, src), "attrs": [[a, eng.eval_model(m, v)] for a, v in state.get("attrs", [])],
                "html_image": eng.eval_model(m, img_on), "kind": eng.eval_model(m, kind), "other_ext": eng.eval_model(m, adm_on_other)}

    eng.witness_fn = wit

    def body():
        ss = eng.concretize_int(src_state)
        attrs = []
        if ss == 0:
            attrs.append(("src", lift(src)))
        elif ss == 2:
            attrs.append(("src", None))
        used = {"src"}
        for i in range(nattr):
            a = IMG_ATTRS[eng.concretize_int(asel[i])]
            if a in used:
                raise core.PathAbort("duplicate attribute")
            used.add(a)
            v = None if bool(vnone[i]) else lift(vals[i])[: eng.concretize_int(vlen[i])]
            attrs.append((a, v))
        state["attrs"] = attrs
        kd = eng.concretize_int(kind)
        on = bool(img_on)
        check_img(eng, h2n, ph, opts_mod, attrs, kd, on, bool(adm_on_other))
        return kd

    return body


def check_img(eng, h2n, ph, opts_mod, attrs, kd, on, other=False):
    from harness.c16_html_ast import apply_events

    events = [("startend" if kd == 1 else "start", "img", attrs)]
    if kd == 2:
        events += [("start", "p", []), ("data", "t"), ("end", "p")]
    tree = apply_events(ph, events)
    h2n.tokenize_html = lambda text: tree
    text = "<the source text>"
    r = StubRenderer(False, ({"html_image"} if on else set()) | ({"html_admonition"} if other else set()))
    try:
        out = h2n.html_to_nodes(text, 7, r)
    except Exception as exc:  # noqa
        eng.fail("html-to-nodes-raises", "%s: %s" % (type(exc).__name__, exc))
    convertible = on and kd != 2
    if not convertible:
        eng.require(len(out) == 1 and isinstance(out[0], RawNode) and out[0].text == text and out[0].attrs.get("format") == "html" and not r.calls, "passthrough")
        return
    ad = {}
    for a, v in attrs:
        ad[a] = v
    if "src" not in ad or ad["src"] is None or len(ad["src"]) == 0:
        # no usable src: an error message (or raw HTML), never a directive run with a non-string argument
        eng.require(not r.calls and len(out) == 1 and (isinstance(out[0], Msg) or isinstance(out[0], RawNode)), "img-without-src", "calls=%r" % (r.calls,))
        return
    eng.require(len(r.calls) == 1 and r.calls[0][0] == "image" and r.calls[0][3] == 7, "img-directive-call")
    name, first, content, pos, additional = r.calls[0]
    eng.require(isinstance(first, (str, SStr)) and T(_eq(first, ad["src"])), "img-src-carried")
    try:
        got, body = effective_options(eng, opts_mod, content, additional)
    except opts_mod.TokenizeError as e:
        eng.fail("img-options-unreadable", "generated option block cannot be read back: %s" % (e.problem,))
    exp = {a: v for a, v in ad.items() if a in WHITELIST}
    eng.require(set(got) == set(exp), "img-option-keys", "got %s expected %s" % (sorted(got), sorted(exp)))
    for a, v in exp.items():
        g = got[a]
        if v is None or len(v) == 0:
            eng.require(g is None or len(g) == 0, "img-option-empty", "attribute %s" % a)
        else:
            eng.require(g is not None and T(_eq(g, v)), "img-option-value-changed", "attribute %s" % a)
    eng.require(len(body.strip()) == 0 if len(body) else True, "img-body-leak")
    if exp:
        eng.note("directive")


def make_admonition(eng, nval, alphabet):
    h2n = M["myst_parser.mdit_to_docutils.html_to_nodes"]
    ph = M["myst_parser.parsers.parse_html"]
    opts_mod = M["myst_parser.parsers.options"]
    cls_extra = new_str(eng, "cls", nval, alphabet=alphabet)
    clen = new_int(eng, "clen", 0, nval)
    csep = new_int(eng, "csep", 0, 2)  # class tokens are separated by any ASCII white space
    name_v = new_str(eng, "name", nval, alphabet=alphabet)
    has_name = new_bool(eng, "has_name")
    title_kind = new_int(eng, "title_kind", 0, 4)  # 0 none, 1 <p class=title>, 2 <div class="admonition-title">, 3 <p class="subtitle">, 4 <p class="x title">
    on = new_bool(eng, "html_admonition")
    img_other = new_bool(eng, "html_image_other")
    body_kind = new_int(eng, "body_kind", 0, 4)
    state = {}
    eng.witness_fn = lambda m: {"cls": eng.eval_model(m, state.get("cls", "")), "name": eng.eval_model(m, name_v) if eng.eval_model(m, has_name) else None,
                               "title_kind": eng.eval_model(m, title_kind), "html_admonition": eng.eval_model(m, on), "body_kind": eng.eval_model(m, body_kind), "other_ext": eng.eval_model(m, img_other)}

    def body():
        from harness.c16_html_ast import apply_events

        extra = lift(cls_extra)[: eng.concretize_int(clen)]
        tk = eng.concretize_int(title_kind)
        bk = eng.concretize_int(body_kind)
        hn = bool(has_name)
        if tk or bk or hn:
            eng.assume(csep == 0)  # the separator is varied on the simplest shape only
        cls = join("", ["admonition" + " \t\n"[eng.concretize_int(csep)], extra]) if len(extra) else "admonition"
        state["cls"] = cls
        attrs = [("class", cls)]
        if hn:
            attrs.append(("name", lift(name_v)))
        ev = [("start", "div", attrs), ("data", "\n")]
        tcls = {1: "title", 2: "admonition-title", 3: "subtitle", 4: "x title"}
        if tk:
            ev += [("start", "div" if tk == 2 else "p", [("class", tcls[tk])]), ("data", "My *T*"), ("end", "div" if tk == 2 else "p"), ("data", "\n")]
        if bk >= 1:
            ev += [("start", "p", []), ("data", "para one"), ("end", "p"), ("data", "\n")]
        if bk == 2:
            ev += [("start", "b", []), ("data", "bold"), ("end", "b")]
        if bk == 3:
            # a paragraph whose inline elements are separated by white space only: the spaces are part of the Markdown
            ev = ev[:-4] + [("start", "p", []), ("start", "kbd", []), ("data", "Ctrl"), ("end", "kbd"), ("data", " "), ("start", "kbd", []), ("data", "C"), ("end", "kbd"), ("data", "  "), ("entityref", "amp"),
                            ("data", " "), ("comment", "c"), ("end", "p"), ("data", "\n")]
        if bk == 4:
            # an element whose attribute value contains a double quote (written title='say "hi"'): still one element when the body is parsed again
            ev += [("start", "span", [("title", 'say "hi"')]), ("data", "x"), ("end", "span")]
        ev += [("end", "div")]
        tree = apply_events(ph, ev)
        h2n.tokenize_html = lambda text: tree
        r = StubRenderer(False, ({"html_admonition"} if bool(on) else set()) | ({"html_image"} if bool(img_other) else set()))
        try:
            out = h2n.html_to_nodes("<src>", 3, r)
        except Exception as exc:  # noqa
            eng.fail("html-to-nodes-raises", "%s: %s" % (type(exc).__name__, exc))
        if not bool(on):
            eng.require(len(out) == 1 and isinstance(out[0], RawNode) and out[0].text == "<src>" and not r.calls, "passthrough")
            return "raw"
        # the class attribute must contain the word 'admonition' (always true here)
        eng.require(len(r.calls) == 1 and r.calls[0][0] == "admonition" and r.calls[0][3] == 3, "admonition-directive-call")
        _, title, content, _, additional = r.calls[0]
        is_title = tk in (1, 2, 4)
        eng.require(T(_eq(title, "My *T*" if is_title else "Note")), "admonition-title", "title kind %d -> %r" % (tk, title if isinstance(title, str) else "<sym>"))
        try:
            got, bodytext = effective_options(eng, opts_mod, content, additional)
        except opts_mod.TokenizeError as e:
            eng.fail("admonition-options-unreadable", "%s" % (e.problem,))
        exp = {"class": cls}
        if hn:
            exp["name"] = lift(name_v)
        eng.require(set(got) == set(exp), "admonition-option-keys", "got %s expected %s" % (sorted(got), sorted(exp)))
        for a, v in exp.items():
            eng.require(got[a] is not None and T(_eq(got[a], v)), "admonition-option-value-changed", "attribute %s" % a)
        exp_body = ""
        if tk == 3:
            exp_body += "My *T*\n\n"
        if bk >= 1:
            exp_body += "para one\n\n"
        if bk == 2:
            exp_body += "<b>bold</b>"
        if bk == 3:
            exp_body = exp_body[: -len("para one\n\n")] + "<kbd>Ctrl</kbd> <kbd>C</kbd>  &amp; <!--c-->\n\n"
        bt = bodytext if isinstance(bodytext, str) else bodytext.concretize()
        if bk == 4:
            exp_body += "<span title='say \"hi\"'>x</span>"
            ok_forms = [exp_body.strip(), exp_body.strip().replace("'say \"hi\"'", '"say &quot;hi&quot;"'), exp_body.strip().replace("'say \"hi\"'", '"say &#34;hi&#34;"')]
            eng.require(bt.strip() in ok_forms, "admonition-body", "%r is none of %r" % (bt, ok_forms))
        else:
            eng.require(bt.strip() == exp_body.strip(), "admonition-body", "%r vs %r" % (bt, exp_body))
        eng.note("directive")
        return "adm"

    return body


# ------------------------------------------------------------ admonition from real text (real tokenizer): inner Markdown carried over unchanged

ADM_BODIES = ["AT&T rocks", "a &amp; b", "x &#38 y &#38; z", "R&D & more &c.", "<kbd>C</kbd> &lt;tag&gt;", "*em* `code` [l](u)", "5 < 6 &nbsp ok", "<span title='say \"hi\"'>x</span>", "<input disabled> <br> text"]


def run_admonition_text(h2n, ph, opts_mod, bi, title):
    """(title, body text) the admonition directive receives for a real HTML admonition whose paragraph holds ADM_BODIES[bi]."""
    text = '<div class="admonition tip">\n' + ('<p class="title">My *T*</p>\n' if title else "") + "<p>" + ADM_BODIES[bi] + "</p>\n</div>"
    h2n.tokenize_html = ph.tokenize_html
    r = StubRenderer(False, {"html_admonition"})
    out = h2n.html_to_nodes(text, 3, r)
    if len(r.calls) != 1 or r.calls[0][0] != "admonition":
        return ("admonition-directive-call", "%r: calls %r, output %r" % (text, r.calls, out))
    _, got_title, content, _, additional = r.calls[0]
    if got_title != ("My *T*" if title else "Note"):
        return ("admonition-title", "%r: title %r" % (text, got_title))
    _opts, body = effective_options(None, opts_mod, content, additional)
    body = body if isinstance(body, str) else body.concretize()
    want = [ADM_BODIES[bi]]
    if "say" in want[0]:
        want += [want[0].replace("'say \"hi\"'", q) for q in ('"say &quot;hi&quot;"', '"say &#34;hi&#34;"')]
    if body.strip() not in want:
        return ("admonition-body", "the paragraph %r of an HTML admonition reaches the directive as %r" % (ADM_BODIES[bi], body.strip()))
    return None


def make_admonition_text(eng):
    h2n = M["myst_parser.mdit_to_docutils.html_to_nodes"]
    ph = M["myst_parser.parsers.parse_html"]
    opts_mod = M["myst_parser.parsers.options"]
    bsel = new_int(eng, "body", 0, len(ADM_BODIES) - 1)
    tsel = new_bool(eng, "title")
    eng.witness_fn = lambda m: {"adm_text": [eng.eval_model(m, bsel), bool(eng.eval_model(m, tsel))]}

    def body():
        bi, title = eng.concretize_int(bsel), bool(tsel)
        try:
            err = run_admonition_text(h2n, ph, opts_mod, bi, title)
        except Exception as exc:  # noqa
            eng.fail("html-to-nodes-raises", "%s: %s" % (type(exc).__name__, exc))
        if err:
            eng.fail(*err)
        eng.passed(2)
        eng.note("directive")
        return "ok"

    return body


def make_failure(eng):
    """tokenize_html raising any Exception -> one warning + raw HTML; extensions off -> tokenizer not even consulted."""
    h2n = M["myst_parser.mdit_to_docutils.html_to_nodes"]
    which = new_int(eng, "exc", 0, 3)
    ext = new_int(eng, "ext", 0, 3)
    EXC = [ValueError, AssertionError, RecursionError, KeyError]
    eng.witness_fn = lambda m: {"exc": eng.eval_model(m, which), "ext": eng.eval_model(m, ext)}

    def body():
        e = EXC[eng.concretize_int(which)]
        x = eng.concretize_int(ext)
        exts = set()
        if x & 1:
            exts.add("html_image")
        if x & 2:
            exts.add("html_admonition")

        def boom(text):
            raise e("boom")

        h2n.tokenize_html = boom
        r = StubRenderer(False, exts)
        try:
            out = h2n.html_to_nodes("<x>", 9, r)
        except Exception as exc:  # noqa
            eng.fail("html-to-nodes-raises", "%s" % type(exc).__name__)
        raws = [o for o in out if isinstance(o, RawNode)]
        eng.require(len(raws) == 1 and raws[0].text == "<x>" and raws[0].line == 9 and raws[0].source == "src.md", "failure-raw")
        if exts:
            eng.require(len(r.warnings) == 1 and getattr(r.warnings[0].subtype, "value", None) == "html" and r.warnings[0].line == 9 and len(out) == 2, "failure-one-typed-warning",
                        "warnings=%d errors=%d" % (len(r.warnings), len(r.errors)))
        else:
            eng.require(not r.warnings and len(out) == 1, "passthrough")
        eng.note("directive")
        return x

    return body


DELIMS = "\t\n\f\r />"


def spec_gfm(text_cps, eng):
    """Regex-free specification of the GFM tag filter over code points: positions of '<' that open
    (or close) a disallowed element = '<' ['/'] name(case-insensitive) followed by one of DELIMS."""
    n = len(text_cps)
    hits = []
    for i in range(n):
        if not T(atom_eq(text_cps[i], 60)):
            continue
        j = i + 1
        if j < n and T(atom_eq(text_cps[j], 47)):
            j += 1
        for tag in GFM_TAGS:
            L = len(tag)
            if j + L >= n:
                continue
            ok = True
            for k, ch in enumerate(tag):
                c = text_cps[j + k]
                if not T(cp_in_ivs(c, ci_ivs(ch))):
                    ok = False
                    break
            if ok and T(cp_in_ivs(text_cps[j + L], ivs_of_chars(DELIMS))):
                hits.append(i)
                break
    return hits


_CI = {}


def ci_ivs(ch):
    """Code points that re.IGNORECASE treats as equal to the ASCII letter ch (derived from the real re)."""
    if ch not in _CI:
        import re
        from symx.sstr import _ivs

        rx = re.compile(ch, re.IGNORECASE)
        _CI[ch] = _ivs(lambda c: rx.fullmatch(chr(c)) is not None)
    return _CI[ch]


def make_gfm(eng, spec):
    h2n = M["myst_parser.mdit_to_docutils.html_to_nodes"]
    cps = []
    k = 0
    for seg in spec:
        if isinstance(seg, str):
            cps.extend(ord(c) for c in seg)
        else:
            n, alpha = seg
            cps.extend(new_str(eng, "s%d" % k, n, alphabet=alpha).cps)
            k += 1
    text = lift(SStr(cps))
    gfm = new_bool(eng, "gfm")
    eng.witness_fn = lambda m: {"text": eng.eval_model(m, text), "gfm": eng.eval_model(m, gfm)}

    def body():
        g = bool(gfm)
        r = StubRenderer(g, set())
        try:
            out = h2n.html_to_nodes(text, 1, r)
        except Exception as exc:  # noqa
            eng.fail("html-to-nodes-raises", "%s: %s" % (type(exc).__name__, exc))
        eng.require(len(out) == 1 and isinstance(out[0], RawNode) and out[0].attrs.get("format") == "html", "passthrough")
        res = out[0].text
        if not g:
            eng.require(_eq(res, text), "passthrough-text-changed")
            return "off"
        tc = list(SStr.of(text).cps)
        hits = spec_gfm(tc, eng)
        exp = []
        for i, c in enumerate(tc):
            if i in hits:
                exp.extend(ord(x) for x in "&lt;")
            else:
                exp.append(c)
        eng.require(_eq(res, lift(SStr(exp))), "gfm-filter", "expected %d neutralised opener(s)" % len(hits))
        if hits:
            eng.note("directive")
        return len(hits)

    return body


# ------------------------------------------------------------ figure-md (Sphinx): html_image is forced on only inside the directive


def run_figure_md(html_image, front_matter, real=False):
    """Real Sphinx build (dummy builder) of two pages.  Returns dict of observations."""
    import io, os, sys, tempfile
    from docutils import nodes
    from sphinx.application import Sphinx
    from sphinx.util.docutils import docutils_namespace, patch_docutils

    saved = {}
    if not real:
        for name, mod in FIG.items():
            saved[name] = sys.modules.get(name)
            sys.modules[name] = mod
    try:
        with tempfile.TemporaryDirectory(prefix="symx_c17_") as d:
            exts = ["colon_fence"] + (["html_image"] if html_image else [])
            open(os.path.join(d, "conf.py"), "w").write("extensions = ['myst_parser']\nmyst_enable_extensions = %r\nsuppress_warnings = ['image.not_readable']\n" % (exts,))
            fm = "---\nmyst:\n  words_per_minute: 100\n---\n\n" if front_matter else ""
            open(os.path.join(d, "index.md"), "w").write(fm + "# Index\n\n<img src=\"before.png\" alt=\"b\">\n\n:::{figure-md} fig-target\n<img src=\"fig.png\" alt=\"f\" width=\"20px\">\n\nCaption *text*\n:::\n\n"
                                                         "<img src=\"after.png\" alt=\"a\">\n\n```{toctree}\nother\n```\n")
            open(os.path.join(d, "other.md"), "w").write("# Other\n\n<img src=\"other.png\" alt=\"o\">\n")
            warn = io.StringIO()
            with docutils_namespace(), patch_docutils(d):
                app = Sphinx(d, d, os.path.join(d, "_build"), os.path.join(d, "_build", ".doctrees"), "dummy", status=None, warning=warn, freshenv=True, parallel=0)
                app.build()
                obs = {"config_exts": sorted(app.env.myst_config.enable_extensions), "warnings": warn.getvalue()}
                for docname in ("index", "other"):
                    tree = app.env.get_doctree(docname)
                    obs[docname + "_images"] = sorted(im["uri"] for im in tree.findall(nodes.image))
                    obs[docname + "_raw"] = sorted(r.astext() for r in tree.findall(nodes.raw))
                    obs[docname + "_figures"] = len(list(tree.findall(nodes.figure)))
            return obs
    finally:
        for name, mod in saved.items():
            if mod is None:
                sys.modules.pop(name, None)
            else:
                sys.modules[name] = mod


def check_figure_md(obs, html_image):
    want_exts = sorted(["colon_fence"] + (["html_image"] if html_image else []))
    if obs["config_exts"] != want_exts:
        return ("figure-md-changes-config", "enable_extensions of the project configuration is %r after the build, configured %r" % (obs["config_exts"], want_exts))
    if obs["index_figures"] != 1 or "fig.png" not in obs["index_images"]:
        return ("figure-md-image", "figure-md did not produce a figure with its image: %r" % (obs,))
    outside = {"index": ["after.png", "before.png"], "other": ["other.png"]}
    for doc, uris in outside.items():
        got = [u for u in obs[doc + "_images"] if u != "fig.png"]
        nraw = sum(1 for r in obs[doc + "_raw"] if "<img" in r)
        if html_image and (got != uris or nraw):
            return ("html-image-not-converted", "html_image on: page %s has images %r and %d raw <img> (expected %r converted)" % (doc, got, nraw, uris))
        if not html_image and (got or nraw != len(uris)):
            return ("html-image-converted-although-off", "html_image off: page %s has images %r and %d raw <img> (expected %d raw)" % (doc, got, nraw, len(uris)))
    return None


FIG = {}


def make_figure_md(eng):
    from harness import common_render as CR

    CR.setup()
    if not FIG:
        FIG.update(load_instrumented(["myst_parser.mdit_to_docutils.sphinx_", "myst_parser.parsers.sphinx_", "myst_parser.sphinx_ext.directives", "myst_parser.sphinx_ext.main"], using=CR.R))
    c = CR.Choice(eng)
    state = {}
    eng.witness_fn = lambda m: dict(state)

    def body():
        c.reset()
        hi, fm = bool(c.choose(2)), bool(c.choose(2))
        state.update(figure_md=[hi, fm])
        try:
            obs = run_figure_md(hi, fm)
        except Exception as exc:  # noqa
            eng.fail("sphinx-build-raises", "%s: %s" % (type(exc).__name__, str(exc)[:300]))
        err = check_figure_md(obs, hi)
        if err:
            eng.fail(*err)
        eng.passed(4)
        eng.note("directive")
        return "ok"

    return body


def families(tier, seed):
    q = tier == "quick"
    F = []
    OPTC = 'a"#|: \n'
    for nattr, nval in ([(1, 2), (2, 1), (1, 3)] if q else [(1, 3), (2, 2), (1, 4), (3, 1)]):
        F.append(Family("img/A%d-V%d" % (nattr, nval), make_img, "<img> with src present/absent/valueless + %d further attribute(s) from %r, value None or <=%d symbolic chars over %r; html_image on/off; void/self-closing/followed by <p>" % (
            nattr, IMG_ATTRS[1:], nval, OPTC), args=dict(nval=nval, alphabet=OPTC, nattr=nattr), nontrivial="directive", max_forks=60000, required=((nattr, nval) != (1, 4))))
    F.append(Family("img/unicode-V1", make_img, "<img> with one further attribute whose value is one arbitrary code point", args=dict(nval=1, alphabet=None, nattr=1), nontrivial="directive", max_forks=60000))
    for nval in ([2] if q else [2, 3]):
        F.append(Family("admonition/V%d" % nval, make_admonition, "<div class='admonition X' name=Y> with X, Y <=%d symbolic chars over 'a\"#: ', 5 title forms, 3 body forms, extension on/off" % nval,
                        args=dict(nval=nval, alphabet='a"#: '), nontrivial="directive", max_forks=60000))
    F.append(Family("admonition/text", make_admonition_text, "HTML admonitions from real text through the real tokenizer: paragraph bodies %r x with / without a title paragraph: the directive receives the inner Markdown unchanged "
                    "(references without the closing ';', '<', valueless attributes; a quoted attribute value may be re-quoted)" % (ADM_BODIES,), nontrivial="directive", max_forks=1000))
    F.append(Family("figure-md/sphinx", make_figure_md, "real Sphinx builds of two pages with a figure-md directive (which forces html_image on for its own body) x html_image configured on/off x front matter present/absent: <img> outside the directive "
                    "converts iff html_image is configured, on the same and on the next page; the project configuration is unchanged", nontrivial="directive", max_forks=1000))
    F.append(Family("failure", make_failure, "tokenize_html raises ValueError/AssertionError/RecursionError/KeyError x 4 extension combinations", nontrivial="directive"))
    sig = "<>/ sStT\n"
    for tag in (["style", "xmp"] if q else GFM_TAGS):
        F.append(Family("gfm/%s" % tag, make_gfm, "template <2 sym>%s<2 sym> over %r, gfm on/off" % (tag, sig), args=dict(spec=[(2, sig), tag, (2, sig)]), nontrivial="directive", max_forks=60000))
    F.append(Family("gfm/case", make_gfm, "template '<' + 5 symbolic chars over 'sStTyYlLeEſK' + ' >' (case-insensitive matching incl. non-ASCII case partners)",
                    args=dict(spec=["<", (5, "sStTyYlLeEſK"), " >"]), nontrivial="directive", max_forks=60000))
    for n in ([5] if q else [6, 7]):
        F.append(Family("gfm/raw-N%d" % n, make_gfm, "all texts 'x' + %d chars over '</xmpXMP >' " % n, args=dict(spec=["x", (n, "</xmpXMP >")]), nontrivial="directive", max_forks=60000, required=(n <= 6)))
    return F


# ------------------------------------------------------------------- replay


class _CE:
    def require(self, cond, label, detail=""):
        if not (cond if isinstance(cond, bool) else bool(cond)):
            raise _Fail(label, detail)

    def fail(self, label, detail=""):
        raise _Fail(label, detail)

    def note(self, *a):
        pass

    def concretize_int(self, v):
        return v


class _Fail(Exception):
    def __init__(self, label, detail):
        self.label, self.detail = label, detail


def replay(label, witness):
    if "adm_text" in witness:
        import myst_parser.mdit_to_docutils.html_to_nodes as rh2n
        import myst_parser.parsers.parse_html as rph
        import myst_parser.parsers.options as ropts

        try:
            err = run_admonition_text(rh2n, rph, ropts, *witness["adm_text"])
        except Exception as e:  # noqa
            return ("C17/exception:%s" % type(e).__name__, "admonition text %r raised %r" % (witness["adm_text"], e))
        return ("C17/%s" % err[0], err[1]) if err else None
    if "figure_md" in witness:
        hi, fm = witness["figure_md"]
        try:
            obs = run_figure_md(hi, fm, real=True)
        except Exception as e:  # noqa
            return ("C17/exception:%s" % type(e).__name__, "figure-md build raised %r" % (e,))
        err = check_figure_md(obs, hi)
        return ("C17/%s" % err[0], err[1]) if err else None
    import myst_parser.mdit_to_docutils.html_to_nodes as real
    import myst_parser.parsers.parse_html as rph
    import myst_parser.parsers.options as ropts

    saved_nodes, saved_tok = real.nodes, real.tokenize_html
    real.nodes = StubNodes
    try:
        if "text" in witness:
            t, g = witness["text"], witness["gfm"]
            r = StubRenderer(g, set())
            try:
                out = real.html_to_nodes(t, 1, r)
            except Exception as e:  # noqa
                return ("C17/exception:%s" % type(e).__name__, "html_to_nodes(%r) raised %r" % (t, e))
            res = out[0].text
            if not g:
                return None if res == t else ("C17/passthrough-text", "%r -> %r" % (t, res))
            hits = spec_gfm([ord(c) for c in t], None)
            exp = "".join("&lt;" if i in hits else c for i, c in enumerate(t))
            if res != exp:
                return ("C17/gfm-filter", "gfm filter on %r gives %r, specification %r" % (t, res, exp))
            return None
        if "exc" in witness:
            EXC = [ValueError, AssertionError, RecursionError, KeyError]
            e = EXC[witness["exc"]]
            x = witness["ext"]
            exts = set(["html_image"] if x & 1 else []) | set(["html_admonition"] if x & 2 else [])

            def boom(text):
                raise e("boom")

            real.tokenize_html = boom
            r = StubRenderer(False, exts)
            try:
                out = real.html_to_nodes("<x>", 9, r)
            except Exception as ex:  # noqa
                return ("C17/failure-escapes:%s" % type(ex).__name__, "tokenizer failure %s escapes html_to_nodes" % e.__name__)
            raws = [o for o in out if isinstance(o, RawNode)]
            if len(raws) != 1 or raws[0].text != "<x>":
                return ("C17/failure-raw", "no raw fallback")
            if exts and not (len(r.warnings) == 1 and getattr(r.warnings[0].subtype, "value", None) == "html" and len(out) == 2):
                return ("C17/failure-warning", "tokenizer failure gives %d create_warning call(s) (subtypes %r) and %d reporter.error call(s)" % (
                    len(r.warnings), [getattr(w.subtype, "value", w.subtype) for w in r.warnings], len(r.errors)))
            return None
        ce = _CE()
        if "src_state" in witness:
            attrs = []
            if witness["src_state"] == 0:
                attrs.append(("src", witness["src"]))
            elif witness["src_state"] == 2:
                attrs.append(("src", None))
            attrs += [tuple(a) for a in witness["attrs"] if a[0] != "src"]
            try:
                check_img(ce, real, rph, ropts, attrs, witness["kind"], witness["html_image"], witness.get("other_ext", False))
            except _Fail as f:
                return ("C17/%s:%s" % (f.label, _cls(attrs)), "<img> attributes %r: %s %s" % (attrs, f.label, f.detail))
            return None
        if "title_kind" in witness:
            return _replay_adm(real, rph, ropts, witness)
    finally:
        real.nodes, real.tokenize_html = saved_nodes, saved_tok
    return None


def _cls(attrs):
    if any(v is None for a, v in attrs):
        return "valueless-attribute"
    vals = "".join(v for a, v in attrs if a != "src" and v)
    for name, chars in (("newline", "\n\r\x85  \x0b\x0c\x1c\x1d\x1e"), ("hash", "#"), ("quote", "\"'"), ("colon", ":"), ("pipe", "|>"), ("space", " \t")):
        if any(c in vals for c in chars):
            return name
    return "general"


def _replay_adm(real, rph, ropts, w):
    from harness.c16_html_ast import apply_events

    cls = w["cls"]
    attrs = [("class", cls)] + ([("name", w["name"])] if w["name"] is not None else [])
    tk, bk = w["title_kind"], w["body_kind"]
    ev = [("start", "div", attrs), ("data", "\n")]
    tcls = {1: "title", 2: "admonition-title", 3: "subtitle", 4: "x title"}
    if tk:
        ev += [("start", "div" if tk == 2 else "p", [("class", tcls[tk])]), ("data", "My *T*"), ("end", "div" if tk == 2 else "p"), ("data", "\n")]
    if bk >= 1:
        ev += [("start", "p", []), ("data", "para one"), ("end", "p"), ("data", "\n")]
    if bk == 2:
        ev += [("start", "b", []), ("data", "bold"), ("end", "b")]
    if bk == 3:
        ev = ev[:-4] + [("start", "p", []), ("start", "kbd", []), ("data", "Ctrl"), ("end", "kbd"), ("data", " "), ("start", "kbd", []), ("data", "C"), ("end", "kbd"), ("data", "  "), ("entityref", "amp"),
                        ("data", " "), ("comment", "c"), ("end", "p"), ("data", "\n")]
    if bk == 4:
        ev += [("start", "span", [("title", 'say "hi"')]), ("data", "x"), ("end", "span")]
    ev += [("end", "div")]
    tree = apply_events(rph, ev)
    real.tokenize_html = lambda text: tree
    r = StubRenderer(False, ({"html_admonition"} if w["html_admonition"] else set()) | ({"html_image"} if w.get("other_ext") else set()))
    try:
        out = real.html_to_nodes("<src>", 3, r)
    except Exception as e:  # noqa
        return ("C17/exception:%s" % type(e).__name__, "admonition %r raised %r" % (w, e))
    if not w["html_admonition"]:
        return None if (len(out) == 1 and isinstance(out[0], RawNode) and not r.calls) else ("C17/passthrough", "extension off but converted")
    if len(r.calls) != 1 or r.calls[0][0] != "admonition":
        return ("C17/admonition-call", "calls %r" % (r.calls,))
    _, title, content, _, additional = r.calls[0]
    exp_title = "My *T*" if tk in (1, 2, 4) else "Note"
    if title != exp_title:
        return ("C17/admonition-title", "title form %d (%s): title %r expected %r" % (tk, tcls.get(tk), title, exp_title))
    try:
        got, body = effective_options(None, ropts, content, additional)
    except ropts.TokenizeError as e:
        return ("C17/admonition-options-unreadable:%s" % _cls(attrs), "option block %r: %s" % (content, e.problem))
    exp = {"class": cls}
    if w["name"] is not None:
        exp["name"] = w["name"]
    if got != exp:
        return ("C17/admonition-options:%s" % _cls(attrs), "div attributes %r arrive as options %r (option text %r)" % (exp, got, content))
    if bk == 4:
        pre = ("My *T*\n\n" if tk == 3 else "") + "para one\n\n"
        forms = [pre + "<span title=%s>x</span>" % q for q in ("'say \"hi\"'", '"say &quot;hi&quot;"', '"say &#34;hi&#34;"')]
        return None if body.strip() in [f.strip() for f in forms] else ("C17/admonition-body", "body %r: the attribute value 'say \"hi\"' is not quoted so that it reads back (expected one of %r)" % (body, forms))
    exp_body = ("My *T*\n\n" if tk == 3 else "") + ("para one\n\n" if bk in (1, 2) else "") + ("<b>bold</b>" if bk == 2 else "") + ("<kbd>Ctrl</kbd> <kbd>C</kbd>  &amp; <!--c-->\n\n" if bk == 3 else "")
    if body.strip() != exp_body.strip():
        return ("C17/admonition-body", "body %r expected %r" % (body, exp_body))
    return None


def selftest(seed):
    from symx import sre
    import re

    problems = []
    cmp, bad = sre.selftest([(r"<(\/?)(iframe|noembed|noframes|plaintext|script|style|title|textarea|xmp)(?=[\t\n\f\r />])", re.IGNORECASE)], seed=seed, max_len=3, extra_alpha="<xmpXMP >/", n_random=400)
    for b in bad[:3]:
        problems.append("regex shim mismatch: %r" % (b,))
    return problems
