"""Shared infrastructure for the renderer-level harnesses (C01-C06, C09, C11, C12, C20).

The instrumented copies of the renderer modules are loaded ONCE (from the current working tree); real docutils and
markdown-it-py run natively underneath.  markdown-it's tokenizer is never run symbolically: harnesses build token
streams directly (stub: "the tokenizer emits well-nested tokens with correct maps") or stub md.parse.
"""
from __future__ import annotations

import io

from markdown_it.token import Token

from symx.instrument import load_instrumented

R = {}

MODULES = [
    "myst_parser.warnings_",
    "myst_parser.parsers.options",
    "myst_parser.parsers.directives",
    "myst_parser.inventory",
    "myst_parser.parsers.parse_html",
    "myst_parser.mdit_to_docutils.html_to_nodes",
    "myst_parser.mocking",
    "myst_parser.mdit_to_docutils.transforms",
    "myst_parser.mdit_to_docutils.base",
]


def setup():
    if R:
        return R
    mods = load_instrumented(["textwrap"] + MODULES)
    R.update(mods)
    R["base"] = mods["myst_parser.mdit_to_docutils.base"]
    R["mocking"] = mods["myst_parser.mocking"]
    R["transforms"] = mods["myst_parser.mdit_to_docutils.transforms"]
    R["warnings_"] = mods["myst_parser.warnings_"]
    R["directives"] = mods["myst_parser.parsers.directives"]
    from symx import rt

    # docutils directive/role classes only store their constructor arguments: symbolic line numbers may pass through
    rt.TRANSPARENT_EXTRA.update(["docutils.parsers.rst", "docutils.parsers.rst.directives.admonitions", "docutils.parsers.rst.directives.body",
                                 "docutils.parsers.rst.directives.misc", "docutils.statemachine", "docutils.nodes", "docutils.utils", "docutils.parsers.rst.roles", "docutils.parsers.rst.directives", "docutils.parsers.rst.languages"])
    # mocking.py imports DocutilsRenderer lazily / for typing only; base imports mocking's classes: wired by load order
    return R


class Ctx:
    """One renderer + document + captured reporter stream."""

    def __init__(self, renderer, md, document, stream):
        self.renderer, self.md, self.document, self.stream = renderer, md, document, stream


def new_context(real=False, config=None, sphinx_env=None, settings_overrides=None, source="src.md"):
    """Create a fresh DocutilsRenderer (instrumented unless real=True) bound to a fresh docutils document."""
    from docutils.frontend import get_default_settings
    from docutils.utils import new_document
    from myst_parser.config.main import MdParserConfig
    from myst_parser.parsers.docutils_ import Parser
    from myst_parser.parsers.mdit import create_md_parser

    if real:
        import myst_parser.mdit_to_docutils.base as base
    else:
        base = setup()["base"]
    cfg = MdParserConfig(**(config or {}))
    md = create_md_parser(cfg, base.DocutilsRenderer)
    settings = get_default_settings(Parser)
    settings.report_level = 5  # messages are created but not printed (printing would force symbolic line numbers)
    settings.halt_level = 6
    stream = io.StringIO()
    settings.warning_stream = stream
    for k, v in (settings_overrides or {}).items():
        setattr(settings, k, v)
    if sphinx_env is not None:
        settings.env = sphinx_env
    doc = new_document(source, settings)
    md.options["document"] = doc
    r = md.renderer
    r.setup_render(md.options, {})
    return Ctx(r, md, doc, stream)


# ------------------------------------------------------------------ token builders


def heading(tag, line, text="t", attrs=None):
    o = Token("heading_open", tag, 1, map=[line, line + 1], markup="#", block=True)
    if attrs:
        o.attrs = dict(attrs)
    i = Token("inline", "", 0, map=[line, line + 1], content=text, children=[Token("text", "", 0, content=text)], block=True)
    c = Token("heading_close", tag, -1, markup="#", block=True)
    return [o, i, c]


def paragraph(line, text="p", children=None, nlines=1):
    o = Token("paragraph_open", "p", 1, map=[line, line + nlines], block=True)
    i = Token("inline", "", 0, map=[line, line + nlines], content=text, children=children if children is not None else [Token("text", "", 0, content=text)], block=True)
    c = Token("paragraph_close", "p", -1, block=True)
    return [o, i, c]


def blockquote(line, inner, nlines=1):
    return [Token("blockquote_open", "blockquote", 1, map=[line, line + nlines], markup=">", block=True)] + inner + [Token("blockquote_close", "blockquote", -1, markup=">", block=True)]


def bullet_list(line, items, nlines=1):
    out = [Token("bullet_list_open", "ul", 1, map=[line, line + nlines], markup="-", block=True)]
    for it_line, inner in items:
        out += [Token("list_item_open", "li", 1, map=[it_line, it_line + 1], markup="-", block=True)] + inner + [Token("list_item_close", "li", -1, markup="-", block=True)]
    out.append(Token("bullet_list_close", "ul", -1, markup="-", block=True))
    return out


def hr(line):
    return [Token("hr", "hr", 0, map=[line, line + 1], markup="---", block=True)]


def fence(line, info, content, nlines=None, markup="```"):
    n = nlines if nlines is not None else content.count("\n") + 2
    return [Token("fence", "code", 0, map=[line, line + n], markup=markup, info=info, content=content, block=True)]


def myst_target(line, name):
    return [Token("myst_target", "", 0, map=[line, line + 1], content=name, block=True)]


def messages(document):
    from docutils import nodes

    return list(document.findall(nodes.system_message))


def outline(node):
    """Nested (kind, detail, children) structure of sections/rubrics for comparisons."""
    from docutils import nodes

    out = []
    for ch in node.children:
        if isinstance(ch, nodes.section):
            out.append(("section", ch[0].astext() if len(ch) and isinstance(ch[0], nodes.title) else None, outline(ch)))
        elif isinstance(ch, nodes.rubric):
            out.append(("rubric", ch.astext(), ch.get("level")))
        elif isinstance(ch, (nodes.block_quote, nodes.bullet_list, nodes.list_item, nodes.container, nodes.admonition)):
            out.append((ch.tagname, None, outline(ch)))
        elif isinstance(ch, nodes.system_message):
            out.append(("msg", None, None))
        elif isinstance(ch, nodes.paragraph):
            out.append(("p", ch.astext(), None))
    return out


# ------------------------------------------------------------------ full docutils pipeline

P = {}


def setup_pipeline():
    """Instrumented copy of the docutils front end (Parser) on top of the instrumented renderer modules."""
    setup()
    if P:
        return P
    mods = load_instrumented(["myst_parser.parsers.docutils_"], using=R)
    P["docutils_"] = mods["myst_parser.parsers.docutils_"]
    return P


def publish(text, overrides=None, real=False, source="src.md"):
    """Parse `text` and run the standard transform pipeline.  Returns (document, warning_text)."""
    from docutils.core import publish_doctree

    if real:
        from myst_parser.parsers.docutils_ import Parser
    else:
        Parser = setup_pipeline()["docutils_"].Parser
    stream = io.StringIO()
    so = {"report_level": 2, "halt_level": 6, "warning_stream": stream, "output_encoding": "unicode"}
    so.update(overrides or {})
    doc = publish_doctree(text, source_path=source, parser=Parser(), settings_overrides=so)
    return doc, stream.getvalue()


class Choice:
    """Solver-enumerated choices for grammar-generated documents (assume + case-split concretisation)."""

    def __init__(self, eng, n=32, width=15):
        from symx.sstr import new_int

        self.eng = eng
        self.ch = [new_int(eng, "ch%d" % i, 0, width) for i in range(n)]
        self.i = 0

    def reset(self):
        self.i = 0

    def choose(self, n):
        from symx import core

        if self.i >= len(self.ch):
            raise core.PathAbort("choice pool exhausted")
        v = self.ch[self.i]
        self.i += 1
        self.eng.assume(v < n)
        return self.eng.concretize_int(v)

    def pick(self, seq):
        return seq[self.choose(len(seq))]
