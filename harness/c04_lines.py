"""C04 — nodes and warnings carry the true source line, at any nesting depth.

Encoded: DocutilsRenderer._render_tokens, nested_render_text, add_line_and_source_path, render_* block methods,
render_directive/run_directive (base.py), parse_directive_text (directives.py), MockState.nested_parse,
MockStateMachine, MockIncludeDirective.run (mocking.py), create_warning (warnings_.py) — instrumented;
real docutils directives, real markdown-it (on concrete text) underneath.

The document text is a concrete layout chosen by the solver from a layout grammar; the LINE AT WHICH THE TEXT SITS
(`lineno` of the nested render, i.e. the position of the enclosing construct in a larger document) is a symbolic
integer: every node's line is an expression in it and z3 proves  node.line == S + 1 + index  for all S >= 0.
"""
from __future__ import annotations

import os
import tempfile

from symx import core
from symx.core import SBool, SInt
from symx.driver import Family
from symx.sstr import SStr, new_int, new_bool
from harness import common_render as CR

ID = "C04"
TECHNIQUE = "symbolic execution (symx + z3) of the real renderer's line arithmetic: concrete layouts from a layout grammar rendered at a SYMBOLIC line offset; z3 proves node.line == offset + 1 + index for all offsets"
LEVEL_TEXT = ("For every document layout of the bounded layout grammar (paragraphs, headings, lists, block quotes, code fences, targets, backtick and colon directives nested up to depth 3 with "
              "no / ':key:' / '---' option blocks and 0-2 blank lines before the body, unknown directives and roles producing warnings, include of a file) rendered by the real renderer at a "
              "symbolic line offset S, z3 proves for every marker-carrying block node and every MyST warning that its line equals S + 1 + (index of the construct's first line), for all S >= 0; "
              "included nodes carry the included file's path and their line within that file, and the outer source is restored afterwards (also for warnings raised after the include). Lines with form feeds, "
              "unterminated last directives and multi-line duplicate reference definitions are part of the grammar.")
LEVEL_NOTE = ("The line offset is genuinely symbolic (unbounded integer); layouts are solver-enumerated (degenerate). markdown-it's own token maps are trusted (assumption: token.map[0] is the "
              "0-based first line of the construct). Real docutils admonition directives run natively between the instrumented MyST layers.")
BUDGET_S = {"quick": 150, "thorough": 1200}
EXPLANATION = "Layouts with unique marker words; expected line of each marker known by construction; rendered through nested_render_text(text, S) with symbolic S; equality proved per node."
ASSUMPTIONS = ["markdown-it token maps are correct for the concrete layouts", "docutils admonition directives call state.nested_parse(self.content, self.content_offset, node)"]
OUTSIDE = ["layouts outside the grammar / deeper than 3", "inline-level nodes", "substitution and eval-rst line mapping"]
STUBS = ["file system: a temporary directory created at run time holds the included file"]
NONTRIVIAL_RULE = "paths whose layout contains at least one directive with an option block or nesting depth >= 2"

KNOWN_DESIGN_NOTE = "see known_findings.json: C04/merged-first-line, C04/include-off-by-one"


def setup():
    CR.setup()


class Gen:
    def __init__(self, eng, n=40):
        self.eng = eng
        self.ch = [new_int(eng, "ch%d" % i, 0, 31) for i in range(n)]
        self.reset()

    def reset(self):
        self.i = 0
        self.k = 0

    def choose(self, n):
        if self.i >= len(self.ch):
            raise core.PathAbort("choice pool exhausted")
        v = self.ch[self.i]
        self.i += 1
        self.eng.assume(v < n)
        return self.eng.concretize_int(v)

    def marker(self):
        self.k += 1
        return "M%d" % self.k


# A layout is (lines, markers) where markers = [(marker, rel_line, nodekind, extra)]


def blocks(g, depth, nblocks, kinds):
    lines = []
    marks = []
    for b in range(nblocks):
        if lines:
            lines.append("")
        bl, bm = block(g, depth, kinds)
        off = len(lines)
        lines += bl
        marks += [(m, r + off, k, x) for m, r, k, x in bm]
    return lines, marks


def block(g, depth, kinds):
    kind = kinds[g.choose(len(kinds))]
    if kind == "para":
        m = g.marker()
        # the continuation line carries a form feed: an ordinary character of the line, not a line break
        return [m + " text", "conti\x0cnued"], [(m, 0, "paragraph", None)]
    if kind == "quote":
        m = g.marker()
        return ["> " + m + " quoted"], [(m, 0, "paragraph", None), (m, 0, "block_quote", None)]
    if kind == "list":
        m1, m2 = g.marker(), g.marker()
        b = "-*+"[g.k % 3]  # adjacent lists with the same bullet would be merged by Markdown
        return [b + " " + m1, b + " " + m2], [(m1, 0, "paragraph", None), (m2, 1, "paragraph", None), (m1, 0, "bullet_list", None), (m1, 0, "list_item", None), (m2, 1, "list_item", None)]
    if kind == "code":
        m = g.marker()
        return ["```python", m, "```"], [(m, 0, "literal_block", None)]
    if kind == "target":
        m = g.marker()
        return ["(" + m.lower() + ")=", "", m + " after target"], [(m.lower(), 0, "target", None), (m, 2, "paragraph", None)]
    if kind == "heading":
        m = g.marker()
        return ["# " + m], [(m, 0, "heading", None)]
    if kind == "dup-refdef":
        # a duplicate link reference definition spanning several lines: the warning belongs to its FIRST line
        m = g.marker()
        lab = "lbl" + m.lower()
        return ["[%s]: http://a/%s" % (lab, m), "", "[%s]:" % lab, "  http://b/%s" % m, "  'title %s'" % m, "", m + " uses [%s]" % lab], [(m, 2, "warning:duplicate_def", None), (m, 6, "paragraph", None)]
    if kind == "unknown-directive":
        m = g.marker()
        return ["```{nosuchdirective%s}" % m, "x", "```"], [(m, 0, "warning:directive_unknown", None)]
    if kind == "unknown-role":
        m = g.marker()
        return [m + " {nosuchrole%s}`x`" % m], [(m, 0, "paragraph", None), (m, 0, "warning:role_unknown", None)]
    if kind == "directive":
        return directive(g, depth, kinds)
    if kind == "substitution":
        # a block substitution: what it renders belongs to the line of the '{{ key }}' construct
        m = g.marker()
        g.subs = {"subval": m + " from the substitution"}
        return ["{{ subval }}"], [(m, 0, "paragraph", "substitution")]
    if kind == "code-unknown-lang":
        m = g.marker()
        return ["```nosuchlexer", m, "```"], [(m, 0, "literal_block", None)]
    if kind in ("dir-container", "dir-topic", "dir-compound", "dir-rubric"):
        # directives whose docutils class sets no source info on its output: the line comes from the document's current line
        m = g.marker()
        name = kind[4:]
        if name == "rubric":
            return ["```{rubric} " + m + " title", "```"], [(m, 0, "rubric", None)]
        arg = {"container": " cls", "topic": " Topic title", "compound": ""}[name]
        return ["```{%s}%s" % (name, arg), m + " body", "```"], [(m, 0, name, None), (m, 1, "paragraph", None)]
    if kind in ("dir-title-role", "dir-topic-title-role"):
        # a directive title is inline text handed back to the renderer (state.inline_text): its warnings belong to the directive line
        # (colon fence: a backtick fence cannot have a backtick in its info string)
        m1, m2 = g.marker(), g.marker()
        name = "admonition" if kind == "dir-title-role" else "topic"
        return [":::{%s} Title {nosuchrole%s}`x`" % (name, m1), m2 + " body", ":::"], [(m1, 0, "warning:role_unknown", None), (m2, 1, "paragraph", None)]
    if kind == "dir-sourceless-outer":
        # a directive whose output has no source info of its own, with another directive in its body: each output has its own line
        m1, m2 = g.marker(), g.marker()
        name = ["container", "compound", "topic"][g.choose(3)]
        arg = {"container": " cls", "topic": " Topic title", "compound": ""}[name]
        inner = ["note", "container"][g.choose(2)]
        return (["````{%s}%s" % (name, arg), m1 + " first", "", "```{%s}%s" % (inner, " c2" if inner == "container" else ""), m2 + " inner", "```", "````"],
                [(m1, 0, name, None), (m1, 1, "paragraph", None), (m2, 3, inner, None), (m2, 4, "paragraph", None)])
    if kind == "dir-epigraph":
        # docutils' block-quote directives go through MockState.block_quote: quote, body and attribution each have their own line
        m1, m2 = g.marker(), g.marker()
        nb = g.choose(2)
        name = ["epigraph", "pull-quote", "highlights"][g.choose(3)]
        return (["```{%s}" % name] + [""] * nb + [m1 + " body", "", "-- Attr {nosuchrole%s}`x`" % m2, "```"],
                [(m1, 0, "block_quote", None), (m1, 1 + nb, "paragraph", None), (m2, 3 + nb, "attribution", None), (m2, 3 + nb, "warning:role_unknown", None)])
    if kind == "quote-attribution":
        # the attribution of a block quote is inline text of the attribute line; its warning belongs to that line or to the quote's first line
        m1, m2 = g.marker(), g.marker()
        return ['{attribution="Someone {nosuchrole%s}`x`"}' % m1, "> " + m2 + " quoted"], [(m1, 1, "warning:role_unknown", "or-previous-line"), (m2, 1, "paragraph", None), (m2, 1, "block_quote", None)]
    if kind == "container":
        # ':::name' without braces is a plain container (div): its body is a nested render of the fence content
        bl, bm = blocks(g, 0, 2, ["para", "quote", "unknown-role"])
        first = _first_marker("\n".join(bl))
        return [":::cls" + first] + bl + [":::"], [(first, 0, "container", None)] + [(mm, r + 1, k, x) for mm, r, k, x in bm]
    raise ValueError(kind)


def directive(g, depth, kinds):
    colon = g.choose(2)
    fence = (":" if colon else "`") * (3 + depth)
    opt = g.choose(3)  # 0 none, 1 ':class: x', 2 '---' block
    nblank = g.choose(3)
    merged = g.choose(2) if opt == 0 else 0  # body text on the directive line (known finding when merged)
    m = g.marker()
    lines = [fence + "{note}" + (" " + m + "first" if merged else "")]
    marks = []
    if merged:
        marks.append((m, 0, "paragraph", "merged-first-line"))
    if opt == 1:
        lines += [":class: c" + m[1:]]
    elif opt == 2:
        lines += ["---", "class: c" + m[1:], "---"]
    lines += [""] * nblank
    if merged and nblank == 0:
        lines += [""]
    inner_kinds = list(getattr(g, "inner", None) or ALL)
    if depth <= 1:
        inner_kinds = [k for k in inner_kinds if k != "directive"]
    nb = 1 if getattr(g, "single", False) else 1 + g.choose(2)
    if depth <= 1 and getattr(g, "single", False):
        inner_kinds = ["para"]
    bl, bm = blocks(g, depth - 1, nb, inner_kinds)
    off = len(lines)
    lines += bl
    lines.append(fence)
    inner = []
    for mm, r, k, x in bm:
        if k == "heading":
            k = "rubric"
        inner.append((mm, r + off, k, "in-merged" if merged else x))
    # the admonition node itself is identified by the first marker word of its text
    first = m if merged else _first_marker("\n".join(bl))
    marks.insert(0, (first, 0, "note", None))
    return lines, marks + inner


def _first_marker(text):
    import re

    mm = re.search(r"M\d+", text)
    return mm.group(0) if mm else None


def plain_text(n):
    """Text content of a node without system_message headers (which format the, possibly symbolic, line number)."""
    from docutils import nodes

    if isinstance(n, nodes.Text):
        return str(n)
    return "".join(plain_text(c) for c in n.children)


def find_nodes(document):
    """marker -> list of (kind, node) for block nodes carrying a marker word."""
    from docutils import nodes

    out = []
    for n in document.findall():
        if isinstance(n, nodes.Text):
            continue
        kind = n.tagname
        if kind == "system_message":
            text = plain_text(n)
            for sub in ("directive_unknown", "role_unknown", "header", "directive_option", "duplicate_def"):
                if "[myst.%s]" % sub in text:
                    out.append(("warning:" + sub, _marker_in(text), n))
            continue
        if kind in ("paragraph", "literal_block", "rubric", "title"):
            out.append((kind, _marker_in(plain_text(n)), n))
        elif kind in ("block_quote", "bullet_list", "list_item", "note", "section", "container", "topic", "compound", "attribution"):
            out.append((kind, _marker_in(plain_text(n)), n))
        elif kind == "target":
            out.append((kind, (n.get("names") or n.get("ids") or [""])[0], n))
    return out


def _marker_in(text):
    import re

    m = re.search(r"M\d+", text)
    return m.group(0) if m else None


def run_layout(ctx, text, S):
    ctx.renderer.nested_render_text(text, S)


def check_lines(eng, ctx, marks, S, source="src.md"):
    """Every expected (marker, rel_line, kind) must be found with line == S + 1 + rel_line."""
    found = find_nodes(ctx.document)
    seen = {}
    for marker, rel, kind, extra in marks:
        want_kind = {"heading": "title"}.get(kind, kind)
        cands = [n for k, mk, n in found if k == want_kind and mk == marker]
        idx = seen.get((want_kind, marker), 0)  # nested constructs sharing a first marker: document order = outer first
        seen[(want_kind, marker)] = idx + 1
        if len(cands) <= idx:
            eng.fail("node-missing", "no %s node for marker %s" % (kind, marker))
        n = cands[idx]
        line = n.get("line") if kind.startswith("warning") else n.line
        if line is None:
            eng.fail("line-missing", "%s node of %s has no line" % (kind, marker))
        label = "line"
        if extra == "merged-first-line" or extra == "in-merged":
            label = "line:merged-first-line"
        if extra == "substitution":
            label = "line:substitution"
        ok = (line == S + 1 + rel) | (line == S + rel) if extra == "or-previous-line" else line == S + 1 + rel
        eng.require(ok, label, "%s %s: line %s expected S+1+%d" % (kind, marker, _fmt(eng, line, S), rel), stop=(label == "line"))  # listed findings (merged first line, substitution) do not end the path
        src = n.get("source") if kind.startswith("warning") else n.source
        eng.require(src == source, "source", "%s %s: source %r" % (kind, marker, src))


def _fmt(eng, line, S):
    if isinstance(line, int):
        return str(line)
    try:
        m = eng._get_model()
        return "%d (at S=%d)" % (eng.eval_model(m, line), eng.eval_model(m, S))
    except BaseException:
        return "<sym>"


def make_layout(eng, depth, nblocks, kinds, inner=None, single=False):
    setup()
    g = Gen(eng)
    g.inner = inner
    g.single = single
    S = new_int(eng, "S", 0)
    state = {}
    eng.witness_fn = lambda m: {"text": state.get("text"), "marks": state.get("marks"), "S": eng.eval_model(m, S)}

    def body():
        g.reset()
        lines, marks = blocks(g, depth, nblocks, kinds)
        if len(lines) > 1 and lines[-1] and set(lines[-1]) <= set("`") | set(":") and len(set(lines[-1])) == 1 and g.choose(2):
            # the text ends inside the last directive: its closing fence is missing (content without a final newline)
            lines = lines[:-1]
        text = "\n".join(lines)
        state["text"], state["marks"] = text, marks
        ctx = CR.new_context(config={"enable_extensions": ["colon_fence", "attrs_block"]})
        try:
            run_layout(ctx, text, S)
        except Exception as exc:  # noqa
            import traceback

            eng.fail("render-raises", "%s: %s @ %s" % (type(exc).__name__, exc, traceback.format_tb(exc.__traceback__)[-1][:300]))
        check_lines(eng, ctx, marks, S)
        if any(k == "note" for _, _, k, _ in marks):
            eng.note("directive")
        return len(marks)

    return body


def make_include(eng):
    """Include of a file: nodes carry the file's path and their line within the file; outer nodes keep outer source/lines."""
    setup()
    g = Gen(eng)
    S = new_int(eng, "S", 0)
    state = {}
    eng.witness_fn = lambda m: {"inc": state.get("inc"), "marks_inc": state.get("marks_inc"), "start": state.get("start"), "opt": state.get("opt", ""), "S": eng.eval_model(m, S), "outer_after": True}

    def body():
        g.reset()
        lines, marks = blocks(g, 1, 1 + g.choose(2), ["para", "quote", "list", "unknown-role", "code"])
        npad = g.choose(3)
        mode = g.choose(3)  # how the head of the file is skipped: :start-line: n / :start-after: marker / negative :start-line:
        pad = ["skipped line %d" % i for i in range(npad)]
        if mode == 1:
            pad = pad + ["head SKIPMARK", ""]
            opt = ":start-after: SKIPMARK"
        elif mode == 2 and npad:
            opt = ":start-line: -%d" % len(lines)
        else:
            opt = ":start-line: %d" % npad if npad else ""
        inc_lines = pad + lines
        start = len(pad)  # number of file lines in front of the first block
        state["inc"], state["marks_inc"], state["start"], state["opt"] = "\n".join(inc_lines), marks, start, opt
        with tempfile.TemporaryDirectory(prefix="symx_c04_") as d:
            path = os.path.join(d, "inc.md")
            open(path, "w", encoding="utf8").write("\n".join(inc_lines) + "\n")
            src = os.path.join(d, "src.md")
            outer = ["Mbefore para", "", "```{include} inc.md"] + ([opt] if opt else []) + ["```", "", "Mafter para {nosuchroleafter}`x`"]
            ctx = CR.new_context(source=src)
            try:
                run_layout(ctx, "\n".join(outer), S)
            except Exception as exc:  # noqa
                import traceback

                eng.fail("render-raises", "%s: %s @ %s" % (type(exc).__name__, exc, traceback.format_tb(exc.__traceback__)[-1][:300]))
            found = find_nodes(ctx.document)
            # included nodes: line relative to the included FILE (1-based), source = the file
            for marker, rel, kind, extra in marks:
                want = {"heading": "title"}.get(kind, kind)
                cands = [n for k, mk, n in found if k == want and mk == marker]
                if not cands:
                    eng.fail("node-missing", "no %s node for marker %s (include)" % (kind, marker))
                n = cands[0]
                line = n.get("line") if kind.startswith("warning") else n.line
                srcv = n.get("source") if kind.startswith("warning") else n.source
                eng.require(line == start + rel + 1, "line:include", "%s %s in included file: line %s expected %d" % (kind, marker, line, start + rel + 1), stop=False)
                eng.require(srcv == path, "source:include", "%s %s: source %r expected the included file" % (kind, marker, srcv))
            # outer nodes
            after = [n for k, mk, n in found if k == "paragraph" and "Mafter" in plain_text(n)]
            before = [n for k, mk, n in found if k == "paragraph" and "Mbefore" in plain_text(n)]
            eng.require(len(after) == 1 and len(before) == 1, "node-missing")
            eng.require(before[0].line == S + 1 and before[0].source == src, "line", "outer paragraph before include")
            eng.require(after[0].line == S + 1 + len(outer) - 1 and after[0].source == src, "line", "outer paragraph after include: %s" % _fmt(eng, after[0].line, S))
            eng.require(ctx.document["source"] == src, "source-restored")
            # a warning raised in the including file after the include belongs to the including file
            wa = [n for k, mk, n in found if k == "warning:role_unknown" and "nosuchroleafter" in plain_text(n)]
            eng.require(len(wa) == 1, "node-missing", "warning after the include")
            eng.require(wa[0].get("source") == src, "source-after-include", "warning after the include is attributed to %r" % (wa[0].get("source"),))
            eng.require(wa[0].get("line") == S + 1 + len(outer) - 1, "line", "warning after the include: line %s" % _fmt(eng, wa[0].get("line"), S))
            stream_text = ctx.stream.getvalue() if hasattr(ctx.stream, "getvalue") else ""
        eng.note("directive")
        return "ok"

    return body


def make_toplevel(eng, kinds):
    """Top-level render (no offset): tokens from the real markdown-it parse of a layout; line == index + 1."""
    setup()
    g = Gen(eng)
    state = {}
    eng.witness_fn = lambda m: {"text": state.get("text"), "marks": state.get("marks"), "S": 0, "toplevel": True, "eof": state.get("eof", "\n"), "subs": state.get("subs", {})}

    def body():
        g.reset()
        g.subs = {}
        g.inner = ["para", "list", "unknown-role"]
        bl, bm = blocks(g, 1, 1, kinds)
        lines = ["M0 intro", ""] + bl
        marks = [("M0", 0, "paragraph", None)] + [(m_, r_ + 2, k_, x_) for m_, r_, k_, x_ in bm]
        eof = "\n"
        if lines[-1] and len(set(lines[-1])) == 1 and lines[-1][0] in "`:" and g.choose(2):
            # the document ends inside the last directive, without a final newline
            lines, eof = lines[:-1], ""
        text = "\n".join(lines)
        state["text"], state["marks"], state["eof"] = text, marks, eof
        ctx = CR.new_context(config={"enable_extensions": ["colon_fence", "substitution"], "substitutions": dict(getattr(g, "subs", None) or {})})
        state["subs"] = dict(getattr(g, "subs", None) or {})
        toks = ctx.md.parse(text + eof, ctx.renderer.md_env)
        try:
            ctx.renderer._render_tokens(toks)
            ctx.renderer._render_finalise()
        except Exception as exc:  # noqa
            eng.fail("render-raises", "%s: %s" % (type(exc).__name__, exc))
        check_lines(eng, ctx, marks, 0)
        if any(k == "note" for _, _, k, _ in marks):
            eng.note("directive")
        return len(marks)

    return body


# ------------------------------------------------------------ Sphinx front end: logged location of warnings in and after an included file

SPXI = {}


def run_sphinx_include(variant, real=False):
    """Real Sphinx build (dummy builder): returns the warning log."""
    import io, sys
    from sphinx.application import Sphinx
    from sphinx.util.docutils import docutils_namespace, patch_docutils

    saved = {}
    if not real:
        for name, mod in SPXI.items():
            saved[name] = sys.modules.get(name)
            sys.modules[name] = mod
    try:
        with tempfile.TemporaryDirectory(prefix="symx_c04_") as d:
            os.makedirs(os.path.join(d, "sub"), exist_ok=True)
            open(os.path.join(d, "conf.py"), "w").write("extensions = ['myst_parser']\nexclude_patterns = ['_build', 'sub/inc.md', 'inc.md']\n")
            inc = {0: "inc.md", 1: "sub/inc.md"}[variant % 2]
            open(os.path.join(d, inc), "w").write("Included para\n\nsecond {nosuchroleinc}`x` para\n")
            pre = ["# Title", "", "first {nosuchrolebefore}`x`", ""] if variant >= 2 else ["# Title", ""]
            lines = pre + ["```{include} %s" % inc, "```", "", "after {nosuchroleafter}`x`", ""]
            open(os.path.join(d, "index.md"), "w").write("\n".join(lines))
            warn = io.StringIO()
            with docutils_namespace(), patch_docutils(d):
                app = Sphinx(d, d, os.path.join(d, "_build"), os.path.join(d, "_build", ".doctrees"), "dummy", status=None, warning=warn, freshenv=True, parallel=0)
                app.build()
            return warn.getvalue().replace(d + os.sep, ""), inc, len(pre) + 4
    finally:
        for name, mod in saved.items():
            if mod is None:
                sys.modules.pop(name, None)
            else:
                sys.modules[name] = mod


def check_sphinx_include(log, inc, after_line):
    import re

    loc = {}
    for m_ in re.finditer(r"^(?:\x1b\[\d+m)?([^\s:]+):(\d+): WARNING: .*?\"(nosuchrole\w+)\"", log, re.M):
        loc[m_.group(3)] = (m_.group(1), int(m_.group(2)))
    if "nosuchroleinc" not in loc or "nosuchroleafter" not in loc:
        return ("warning-missing", "expected warnings for both unknown roles: %r" % (log[:400],))
    if inc not in loc["nosuchroleinc"][0]:  # (Sphinx may print "inc.md.rst")
        return ("include-warning-source", "the warning raised inside %s is reported at %s:%d" % (inc, loc["nosuchroleinc"][0], loc["nosuchroleinc"][1]))
    f, ln = loc["nosuchroleafter"]
    if not f.startswith("index.md") or ln != after_line:
        return ("warning-after-include", "the warning raised in index.md line %d after the include is reported at %s:%d" % (after_line, f, ln))
    if "nosuchrolebefore" in loc and (not loc["nosuchrolebefore"][0].startswith("index.md") or loc["nosuchrolebefore"][1] != 3):
        return ("line:warning", "the warning on line 3 of index.md is reported at %s:%d" % loc["nosuchrolebefore"])
    return None


def make_sphinx_include(eng):
    setup()
    if not SPXI:
        from symx.instrument import load_instrumented

        SPXI.update(load_instrumented(["myst_parser.mdit_to_docutils.sphinx_", "myst_parser.parsers.sphinx_"], using=CR.R))
        SPXI["myst_parser.warnings_"] = CR.R["myst_parser.warnings_"]
    c = CR.Choice(eng)
    state = {}
    eng.witness_fn = lambda m: dict(state)

    def body():
        c.reset()
        v = c.choose(4)
        state.update(sphinx_include=v)
        try:
            log, inc, after_line = run_sphinx_include(v)
        except Exception as exc:  # noqa
            eng.fail("render-raises", "%s: %s" % (type(exc).__name__, str(exc)[:300]))
        err = check_sphinx_include(log, inc, after_line)
        if err:
            eng.fail(*err)
        eng.passed(3)
        eng.note("directive")
        return "ok"

    return body


# ------------------------------------------------------------ Sphinx front end: figure-md (a MyST directive that nested-parses its body)


def figure_md_doc(wrapper):
    """index.md with figure-md directives in every fence / option-block / blank-line layout; returns (lines, {role name: 1-based line})."""
    lines, want = ["# Title", ""], {}
    n = 0
    pre = {"none": "", "quote": "> ", "list": "  ", "note": ""}[wrapper]
    if wrapper == "list":
        lines += ["- item", ""]
    if wrapper == "note":
        lines += ["````{note}"]
    for fence in ("```", ":::"):
        for opt in (0, 1, 2):
            for blank in (0, 1):
                n += 1
                blk = [fence + "{figure-md} fig%d" % n]
                if opt == 1:
                    blk += [":class: c%d" % n]
                elif opt == 2:
                    blk += ["---", "class: c%d" % n, "---"]
                blk += [""] * blank
                blk += ["![alt %d](img.png)" % n, "", "Caption {nosuchrolefig%d}`x`" % n, fence, ""]
                for j, l_ in enumerate(blk):
                    if "nosuchrolefig" in l_:
                        want["nosuchrolefig%d" % n] = len(lines) + j + 1
                lines += [(pre + l_).rstrip() if l_ or wrapper == "quote" else l_ for l_ in blk]
    if wrapper == "note":
        lines += ["````", ""]
    return lines, want


def run_sphinx_figure(wrapper, real=False):
    import io, sys
    from sphinx.application import Sphinx
    from sphinx.util.docutils import docutils_namespace, patch_docutils

    saved = {}
    if not real:
        for name, mod in SPXI.items():
            saved[name] = sys.modules.get(name)
            sys.modules[name] = mod
    try:
        with tempfile.TemporaryDirectory(prefix="symx_c04_") as d:
            open(os.path.join(d, "conf.py"), "w").write("extensions = ['myst_parser']\nmyst_enable_extensions = ['colon_fence']\nexclude_patterns = ['_build']\n")
            open(os.path.join(d, "img.png"), "wb").write(b"\x89PNG\r\n\x1a\n")
            lines, want = figure_md_doc(wrapper)
            open(os.path.join(d, "index.md"), "w").write("\n".join(lines))
            warn = io.StringIO()
            with docutils_namespace(), patch_docutils(d):
                app = Sphinx(d, d, os.path.join(d, "_build"), os.path.join(d, "_build", ".doctrees"), "dummy", status=None, warning=warn, freshenv=True, parallel=0)
                app.build()
            return warn.getvalue().replace(d + os.sep, ""), want
    finally:
        for name, mod in saved.items():
            if mod is None:
                sys.modules.pop(name, None)
            else:
                sys.modules[name] = mod


def check_sphinx_figure(log, want):
    import re

    loc = {}
    for m_ in re.finditer(r"^(?:\x1b\[\d+m)?([^\s:]+):(\d+): WARNING: .*?\"(nosuchrole\w+)\"", log, re.M):
        loc[m_.group(3)] = (m_.group(1), int(m_.group(2)))
    for role, line in sorted(want.items()):
        if role not in loc:
            return ("warning-missing", "no warning for the unknown role %s: %r" % (role, log[:300]))
        if not loc[role][0].startswith("index.md") or loc[role][1] != line:
            return ("line:figure-md", "the warning for %s on line %d of index.md is reported at %s:%d" % (role, line, loc[role][0], loc[role][1]))
    return None


def make_sphinx_figure(eng):
    setup()
    if not SPXI:
        from symx.instrument import load_instrumented

        SPXI.update(load_instrumented(["myst_parser.mdit_to_docutils.sphinx_", "myst_parser.parsers.sphinx_"], using=CR.R))
        SPXI["myst_parser.warnings_"] = CR.R["myst_parser.warnings_"]
    if "myst_parser.sphinx_ext.directives" not in SPXI:
        from symx.instrument import load_instrumented

        # (the directive tests isinstance(self.state, MockState): it has to be loaded against the instrumented stand-ins too)
        SPXI.update(load_instrumented(["myst_parser.sphinx_ext.directives", "myst_parser.sphinx_ext.main"], using=dict(CR.R, **SPXI)))
    c = CR.Choice(eng)
    state = {}
    eng.witness_fn = lambda m: dict(state)
    WR = ["none", "quote", "list", "note"]

    def body():
        c.reset()
        w = WR[c.choose(len(WR))]
        state.update(sphinx_figure=w)
        try:
            log, want = run_sphinx_figure(w)
        except Exception as exc:  # noqa
            eng.fail("render-raises", "%s: %s" % (type(exc).__name__, str(exc)[:300]))
        err = check_sphinx_figure(log, want)
        if err:
            eng.fail(*err)
        eng.passed(len(want))
        eng.note("directive")
        return "ok"

    return body


FLAT_EXTRA = ["container", "code-unknown-lang", "dir-container", "dir-topic", "dir-compound", "dir-rubric", "dir-title-role", "dir-topic-title-role", "quote-attribution", "dir-epigraph", "dir-sourceless-outer"]
ALL = ["para", "quote", "list", "code", "target", "heading", "unknown-directive", "unknown-role", "directive"]


def families(tier, seed):
    q = tier == "quick"
    F = []
    F.append(Family("layout/flat", make_layout, "2 blocks from %r at symbolic offset S" % (ALL[:-1] + FLAT_EXTRA,), args=dict(depth=0, nblocks=2, kinds=ALL[:-1] + FLAT_EXTRA), nontrivial=None, max_forks=300000))
    F.append(Family("layout/D1", make_layout, "one directive (backtick/colon, 3 option styles, 0-2 blank lines, merged first line) containing 1-2 blocks from %r, at symbolic offset S" % (ALL[:-1],),
                    args=dict(depth=1, nblocks=1, kinds=["directive"], inner=["para", "list", "heading", "unknown-role", "unknown-directive", "target", "dir-container", "dir-compound"]), nontrivial="directive", max_forks=300000))
    if not q:
        F.append(Family("layout/D2", make_layout, "one directive (backtick/colon, 3 option styles, 0-2 blank lines, merged first line) containing 1-2 blocks incl. a nested directive; symbolic offset S",
                    args=dict(depth=2, nblocks=1, kinds=["directive"], inner=["para", "directive", "unknown-role"]), nontrivial="directive", max_forks=300000, required=False))
    F.append(Family("layout/D2-small", make_layout, "directive in directive (all option/blank-line variants at both levels) with one paragraph; symbolic offset S",
                    args=dict(depth=2, nblocks=1, kinds=["directive"], inner=["directive"], single=True), nontrivial="directive", max_forks=300000))
    if not q:
        F.append(Family("layout/D3", make_layout, "directive nesting depth 3; symbolic offset S", args=dict(depth=3, nblocks=1, kinds=["directive"], inner=["para", "directive"]), nontrivial="directive", max_forks=600000, required=False))
    F.append(Family("sphinx-include", make_sphinx_include, "real Sphinx builds: an unknown role inside an included file (same / sub directory) and unknown roles before / after the include in the including file: "
                    "the logged location names the file the warning belongs to (and the right line in the including file)", nontrivial="directive", max_forks=1000))
    F.append(Family("sphinx-figure-md", make_sphinx_figure, "real Sphinx builds: 12 figure-md directives (backtick/colon fence x no/colon/YAML option block x blank line before the body), at top level and inside a quote, a list item and a {note}: "
                    "the unknown role in each caption is logged at its own line", nontrivial="directive", max_forks=1000))
    F.append(Family("include", make_include, "include of a file with 1-2 blocks whose head is skipped by :start-line: n, :start-after: marker or a negative :start-line:, at symbolic offset S", nontrivial="directive", max_forks=300000))
    F.append(Family("toplevel", make_toplevel, "top-level render of 2 blocks (depth <= 1) tokenised by the real markdown-it", args=dict(kinds=["para", "list", "heading", "directive", "unknown-role", "dup-refdef", "substitution"] if q else ALL + ["dup-refdef", "substitution"]),
                    nontrivial="directive", max_forks=300000))
    return F


def replay(label, witness):
    if "sphinx_include" in witness:
        try:
            log, inc, after_line = run_sphinx_include(witness["sphinx_include"], real=True)
        except Exception as e:  # noqa
            return ("C04/exception:%s" % type(e).__name__, "%r" % (e,))
        err = check_sphinx_include(log, inc, after_line)
        return ("C04/sphinx:%s" % err[0], err[1]) if err else None
    if "sphinx_figure" in witness:
        try:
            log, want = run_sphinx_figure(witness["sphinx_figure"], real=True)
        except Exception as e:  # noqa
            return ("C04/exception:%s" % type(e).__name__, "%r" % (e,))
        err = check_sphinx_figure(log, want)
        return ("C04/sphinx:%s" % err[0], err[1]) if err else None
    S = witness["S"]
    if "inc" in witness:
        with tempfile.TemporaryDirectory(prefix="symx_c04_") as d:
            path = os.path.join(d, "inc.md")
            open(path, "w", encoding="utf8").write(witness["inc"] + "\n")
            src = os.path.join(d, "src.md")
            start = witness["start"]
            opt = witness.get("opt", (":start-line: %d" % start) if start else "")
            outer = ["Mbefore para", "", "```{include} inc.md"] + ([opt] if opt else []) + ["```", "", "Mafter para {nosuchroleafter}`x`"]
            ctx = CR.new_context(real=True, source=src)
            try:
                ctx.renderer.nested_render_text("\n".join(outer), S)
            except Exception as e:  # noqa
                return ("C04/exception:%s" % type(e).__name__, "%r" % (e,))
            found = find_nodes(ctx.document)
            problems = []
            for marker, rel, kind, extra in witness["marks_inc"]:
                want = {"heading": "title"}.get(kind, kind)
                cands = [n for k, mk, n in found if k == want and mk == marker]
                if not cands:
                    problems.append(("C04/node-missing", "no %s node for %s in include" % (kind, marker)))
                    continue
                n = cands[0]
                line = n.get("line") if kind.startswith("warning") else n.line
                srcv = n.get("source") if kind.startswith("warning") else n.source
                if srcv != path:
                    problems.append(("C04/include-source", "%s %s from the included file has source %r" % (kind, marker, srcv)))
                if line != start + rel + 1:
                    problems.append(("C04/include-off-by-one" if line == start + rel + 2 else "C04/include-line", "included file %r (start-line %d): %s %s is on line %d of the file but reported at line %r" % (
                        witness["inc"], start, kind, marker, start + rel + 1, line)))
            after = [n for k, mk, n in found if k == "paragraph" and "Mafter" in n.astext()]
            if not after or after[0].line != S + 1 + len(outer) - 1 or after[0].source != src or ctx.document["source"] != src:
                problems.append(("C04/after-include", "outer node after the include: line %r source %r" % (after[0].line if after else None, after[0].source if after else None)))
            wa = [n for k, mk, n in found if k == "warning:role_unknown" and "nosuchroleafter" in n.astext()]
            if len(wa) != 1 or wa[0].get("source") != src or wa[0].get("line") != S + 1 + len(outer) - 1:
                problems.append(("C04/warning-after-include", "warning raised after the include in %r: source %r line %r" % (src, wa[0].get("source") if wa else None, wa[0].get("line") if wa else None)))
            # report what the failed obligation was about; the (listed) off-by-one of included lines only if it is the only problem
            wanted = {"line:include": ("C04/include-off-by-one", "C04/include-line"), "source:include": ("C04/include-source",), "source-after-include": ("C04/warning-after-include",)}.get(label)
            for pr in problems:
                if wanted and pr[0] in wanted:
                    return pr
            for pr in problems:
                if pr[0] != "C04/include-off-by-one":
                    return pr
            return problems[0] if problems else None
        return None
    text, marks = witness["text"], witness["marks"]
    ctx = CR.new_context(real=True, config={"enable_extensions": ["colon_fence", "substitution", "attrs_block"], "substitutions": witness.get("subs") or {}})
    try:
        if witness.get("toplevel"):
            ctx.renderer._render_tokens(ctx.md.parse(text + witness.get("eof", "\n"), ctx.renderer.md_env))
            ctx.renderer._render_finalise()
        else:
            ctx.renderer.nested_render_text(text, S)
    except Exception as e:  # noqa
        return ("C04/exception:%s" % type(e).__name__, "rendering %r raised %r" % (text, e))
    found = find_nodes(ctx.document)
    seen = {}
    worst = None
    for marker, rel, kind, extra in marks:
        want = {"heading": "title"}.get(kind, kind)
        cands = [n for k, mk, n in found if k == want and mk == marker]
        idx = seen.get((want, marker), 0)
        seen[(want, marker)] = idx + 1
        if len(cands) <= idx:
            return ("C04/node-missing", "no %s node for marker %s in %r" % (kind, marker, text))
        n = cands[idx]
        line = n.get("line") if kind.startswith("warning") else n.line
        if line != S + 1 + rel and not (extra == "or-previous-line" and line == S + rel):
            sig = "C04/merged-first-line" if extra in ("merged-first-line", "in-merged") else "C04/substitution-off-by-one" if (extra == "substitution" and line == S + 2 + rel) else "C04/line:%s" % kind.split(":")[0]
            res = (sig, "text %r rendered at offset %d: %s %s starts on line %d but is reported at line %r" % (text, S, kind, marker, S + 1 + rel, line))
            if sig not in ("C04/merged-first-line", "C04/substitution-off-by-one"):
                return res
            worst = worst or res
            continue
        srcv = n.get("source") if kind.startswith("warning") else n.source
        if srcv != "src.md":
            return ("C04/source", "%s %s source %r" % (kind, marker, srcv))
    return worst


def selftest(seed):
    return []
