"""C09 — local '#target' links resolve to the right node or warn exactly once.

Encoded: render_link/render_link_anchor/render_link_project, render_myst_target, copy_attributes(id), render_heading +
generate_heading_target (base.py), ResolveAnchorIds.apply (transforms.py), the docutils front end Parser (docutils_.py),
all instrumented; real markdown-it (concrete text) and docutils underneath.
"""
from __future__ import annotations

from symx import core
from symx.driver import Family
from harness import common_render as CR

ID = "C09"
TECHNIQUE = "solver-enumerated grammar documents through the instrumented MyST front end and transform pipeline (symx), compared with a resolution oracle computed from the generator's knowledge of targets"
LEVEL_TEXT = ("For every document of the bounded grammar (0-3 explicit targets as '(name)=' block targets, attribute ids or directive :name: options, 0-3 headings incl. duplicate titles and "
              "titles whose slug collides with an explicit name, 1-3 '#'-links with explicit or empty text or <project:#x> autolinks, to existing, missing and case-variant names, placed at top "
              "level / in a quote / in a list / in a directive) the real pipeline's result is compared with the oracle: explicit beats slug, refid is the id of the node carrying the name, empty "
              "text is filled from the target's own title/caption or '#name' (titled admonitions, captioned tables, untitled targets in both orders; non-ASCII names), a missing target keeps the link and its text and yields exactly one xref_missing warning at the link's line, the number of references is unchanged.")
LEVEL_NOTE = ("Degenerate: documents are concrete once the solver has chosen the grammar alternatives (names become dict keys in docutils); the engine contributes exhaustive enumeration of the bounded "
              "grammar through case splits and executes the instrumented MyST code; no symbolic strings reach the transform. markdown-it and docutils run natively.")
BUDGET_S = {"quick": 200, "thorough": 1200}
EXPLANATION = "Grammar-generated Markdown -> instrumented Parser.parse + transforms -> doctree compared with the oracle (which node each link must hit)."
ASSUMPTIONS = ["footnote labels differ from explicit target names (docutils' own duplicate-name handling is outside)", "heading anchors enabled to depth 3", "explicit target names are case-insensitive (docutils normalisation), heading slugs are matched verbatim"]
OUTSIDE = ["Sphinx cross-document resolution (C12)", "arbitrary Unicode names (fully_normalize_name is docutils code)", "documents outside the grammar"]
STUBS = []
NONTRIVIAL_RULE = "paths with at least one link that resolves to an explicit target or slug and at least one target in the document"

NAMES = ["a", "Name", "x-y", "caf\u00e9", "sec:intro"]
TITLES = ["a", "A b", "Name", "Z\u00e9"]


def setup():
    CR.setup_pipeline()


def slug_of(title):
    import re

    return re.sub(r"[^\w一-鿿\- ]", "", title.lower().replace(" ", "-"))


def gen_document(c, nt, nh, nl, slugfunc=False, plain_links=False, titles=None, names=None):
    """Returns (text, spec) with spec = dict(explicit={normname: (kind, title)}, slugs=[(slug, title)], links=[(line, target, has_text, text)])."""
    lines = []
    explicit = {}
    slugs = []
    used_slugs = set()
    links = []
    items = []
    for _ in range(nt):
        items.append(("target", c.pick(names or NAMES), c.choose(6)))
    for _ in range(nh):
        items.append(("heading", c.pick(titles or (["a", "Name", "Ab"] if slugfunc else TITLES)), 1 + c.choose(2)))
    # order: interleave by a chosen rotation
    rot = c.choose(max(1, len(items)))
    items = items[rot:] + items[:rot]
    for it in items:
        if it[0] == "target":
            _, name, kind = it
            norm = name.lower()
            if norm in explicit:
                raise core.PathAbort("duplicate explicit target (docutils reports it itself)")
            if kind == 3:
                # a footnote label is NOT a link target
                if "fn" in explicit:
                    raise core.PathAbort("one footnote only")
                lines += ["Footref[^fnx]", "", "[^fnx]: Foot text", ""]  # label distinct from every explicit name (docutils reports name clashes itself)
                explicit["fn"] = None
                continue
            if kind == 0:
                lines += ["(%s)=" % name, "Para after %s" % name, ""]
                explicit[norm] = ("target", None)
            elif kind == 1:
                lines += ["{#%s}" % name, "Para with id %s" % name, ""]
                explicit[norm] = ("paragraph", None)
            elif kind == 2:
                lines += ["```{note}", ":name: %s" % name, "", "Note %s" % name, "```", ""]
                explicit[norm] = ("note", None)
            elif kind == 4:
                lines += ["```{admonition} Adm *title* %s" % name, ":name: %s" % name, "", "Body %s" % name, "```", ""]
                explicit[norm] = ("admonition", "Adm title %s" % name)
            else:
                # (docutils puts a figure's :name: on its image, so a captioned table is used as the captioned element)
                lines += ["```{table} Caption of %s" % name, ":name: %s" % name, "", "| c |", "|---|", "| 1 |", "```", ""]
                explicit[norm] = ("table", "Caption of %s" % name)
        else:
            _, title, level = it
            lines += ["#" * level + " " + title, ""]
            base = title[::-1] if slugfunc else slug_of(title)
            s = base
            i = 1
            while s in used_slugs:
                s = "%s-%d" % (base, i)
                i += 1
            used_slugs.add(s)
            slugs.append((s, title))
    for _ in range(nl):
        target = c.pick(["a", "a-1", "a-2", "a-1-1", "a-1-2", "missing"]) if titles else c.pick(NAMES + (["bA", "emaN", "eman", "a-1"] if slugfunc else ["a-b", "missing", "a-1", "name", "fnx", "z\u00e9"]))
        style = 1 + c.choose(2) if plain_links else c.choose(3)  # 0 [text](#t), 1 [](#t), 2 <project:#t>
        place = 0 if plain_links else c.choose(2)  # 0 top, 1 quote
        if style == 0:
            md = "[txt %d](#%s)" % (len(links), target)
        elif style == 1:
            md = "[](#%s)" % target
        else:
            md = "<project:#%s>" % target
        prefix = ["", "> ", "- "][place]
        line = len(lines) + 1
        lines += [prefix + "L%d " % len(links) + md, ""]
        links.append((line, target, style == 0, "txt %d" % len(links)))
    explicit.pop("fn", None)
    return "\n".join(lines) + "\n", dict(explicit=explicit, slugs=slugs, links=links)


def check_document(doc, warnings_text, spec):
    """Returns None or (label, detail)."""
    from docutils import nodes

    refs = [r for r in doc.findall(nodes.reference) if not isinstance(r, nodes.footnote_reference)]
    if len(refs) != len(spec["links"]):
        return ("reference-count", "%d reference nodes for %d links" % (len(refs), len(spec["links"])))
    ids = doc.ids
    slugmap = {s: t for s, t in spec["slugs"]}
    n_missing = 0
    for ref, (line, target, has_text, text) in zip(refs, spec["links"]):
        norm = target.lower()
        own_text = "".join(ch.astext() for ch in ref.children if not isinstance(ch, nodes.system_message))
        if has_text and text not in own_text:
            return ("text-lost", "link to #%s lost its text %r (has %r)" % (target, text, own_text))
        if norm in spec["explicit"]:
            kind, ttl = spec["explicit"][norm]
            if "refid" not in ref:
                return ("explicit-unresolved", "link #%s to an explicit target has no refid" % target)
            node = ids.get(ref["refid"])
            if node is None:
                return ("dangling-refid", "link #%s -> refid %r does not exist" % (target, ref["refid"]))
            # the node carrying the name (a '(name)=' target may have been propagated to the next element by docutils)
            names = node.get("names", []) + [nm for t in doc.findall(nodes.target) if t.get("refid") == ref["refid"] for nm in t.get("names", [])]
            if norm not in names and norm not in [n.lower() for n in names]:
                return ("wrong-target", "link #%s resolved to %s with names %r" % (target, node.tagname, names))
            if not has_text and not own_text:
                return ("empty-text", "link [](#%s) to an explicit target has no text" % target)
            if not has_text and own_text != (ttl if ttl else "#" + target):
                return ("implicit-text", "link [](#%s) to the %s named %r shows %r, expected %r (its own title/caption, else '#name')" % (target, kind, norm, own_text, ttl if ttl else "#" + target))
            if any(isinstance(ch, nodes.system_message) for ch in ref.children):
                return ("spurious-warning", "resolved link #%s carries a warning" % target)
        elif target in slugmap:
            if "refid" not in ref:
                return ("slug-unresolved", "link #%s to a heading slug has no refid" % target)
            node = ids.get(ref["refid"])
            if node is None or node.tagname != "section":
                return ("slug-wrong-node", "link #%s -> %r is not a section" % (target, ref["refid"]))
            title = node[0].astext()
            if title != slugmap[target] or node.get("slug") != target:
                return ("slug-wrong-heading", "link #%s resolved to the heading %r (slug %r), expected %r" % (target, title, node.get("slug"), slugmap[target]))
            if not has_text and own_text != slugmap[target]:
                return ("empty-text", "link [](#%s): text %r, expected the heading title %r" % (target, own_text, slugmap[target]))
            if any(isinstance(ch, nodes.system_message) for ch in ref.children):
                return ("spurious-warning", "resolved link #%s carries a warning" % target)
        else:
            n_missing += 1
            msgs = [ch for ch in ref.children if isinstance(ch, nodes.system_message)]
            if len(msgs) != 1 or "[myst.xref_missing]" not in msgs[0].astext():
                return ("missing-warning-count", "link #%s to a missing target carries %d warnings" % (target, len(msgs)))
            if msgs[0].get("line") != line:
                return ("missing-warning-line", "warning for #%s at line %r, link is on line %d" % (target, msgs[0].get("line"), line))
            if not has_text and ("#" + target) not in own_text:
                return ("missing-link-fallback-text", "link [](#%s) to a missing target shows no text (%r)" % (target, own_text))
    total = warnings_text.count("[myst.xref_missing]")
    if total != n_missing:
        return ("missing-warning-total", "%d xref_missing warnings reported, %d links are unresolvable" % (total, n_missing))
    return None


def overrides(slugfunc):
    o = {"myst_heading_anchors": 3, "myst_enable_extensions": ["attrs_block"]}
    if slugfunc:
        o["myst_heading_slug_func"] = "myst_parser.config.main._test_slug_func"
    return o


def make_docs(eng, nt, nh, nl, slugfunc=False, plain_links=False, titles=None, names=None):
    setup()
    c = CR.Choice(eng)
    state = {}
    eng.witness_fn = lambda m: {"text": state.get("text"), "spec": state.get("spec")}

    def body():
        c.reset()
        text, spec = gen_document(c, nt, nh, nl, slugfunc, plain_links, titles, names)
        spec["slugfunc"] = slugfunc
        state["text"], state["spec"] = text, spec
        try:
            doc, warn = CR.publish(text, overrides(slugfunc))
        except Exception as exc:  # noqa
            eng.fail("pipeline-raises", "%s: %s" % (type(exc).__name__, exc))
        err = check_document(doc, warn, spec)
        if err:
            if err[0] == "missing-link-fallback-text":
                eng.stats["obligations"] += 1
                eng.candidates.append(core.Candidate(err[0], eng.witness(), err[1]))
                # known finding: continue with the other obligations
            else:
                eng.fail(err[0], err[1])
        eng.passed(6)
        if (spec["explicit"] or spec["slugs"]) and any(t.lower() in spec["explicit"] or t in dict(spec["slugs"]) for _, t, _, _ in spec["links"]):
            eng.note("resolved")
        return "ok"

    return body


def families(tier, seed):
    q = tier == "quick"
    F = []
    for nt, nh, nl in ([(1, 1, 1), (0, 2, 1), (2, 1, 1), (1, 2, 1)] if q else [(1, 1, 1), (0, 2, 1), (1, 1, 2), (2, 2, 1), (0, 3, 1), (2, 1, 2)]):
        F.append(Family("docs/T%d-H%d-L%d" % (nt, nh, nl), make_docs, "%d explicit target(s) x 5 kinds x %d names, %d heading(s) x %d titles x 2 levels, %d link(s) x 10 destinations x 3 styles x 3 placements, all orders by rotation" % (
            nt, len(NAMES), nh, len(TITLES), nl), args=dict(nt=nt, nh=nh, nl=nl), nontrivial="resolved", max_forks=400000, required=((nt, nh, nl) in ((1, 1, 1), (0, 2, 1)))))
    qn = ["a", "Name", "sec:intro"] if q else None  # (quick tier: 3 of the 5 names)
    F.append(Family("docs/T2-H0-L1", make_docs, "2 explicit targets (5 kinds incl. titled admonition / captioned table, names %r) in both orders, 1 text-less link ([](#t) or <project:#t>) at top level" % (qn or NAMES,),
                    args=dict(nt=2, nh=0, nl=1, plain_links=True, names=qn), nontrivial="resolved", max_forks=400000))
    F.append(Family("docs/duplicate-titles", make_docs, "3 headings with titles from ['a', 'a-1'] (up to three equal titles, collisions with suffixed forms), 1 text-less link to a / a-1 / a-2 / a-1-1 / a-1-2 / missing",
                    args=dict(nt=0, nh=3, nl=1, plain_links=True, titles=["a", "a-1"]), nontrivial="resolved", max_forks=400000))
    F.append(Family("docs/custom-slug-func", make_docs, "1 target, 1 heading, 1 link with a custom case-preserving heading_slug_func (reverses the title)", args=dict(nt=1, nh=1, nl=1, slugfunc=True, names=["a", "Name", "x-y"] if q else None),
                    nontrivial="resolved", max_forks=400000))
    return F


def replay(label, witness):
    text, spec = witness["text"], witness["spec"]
    spec = dict(explicit={k: tuple(v) for k, v in spec["explicit"].items()}, slugs=[tuple(x) for x in spec["slugs"]], links=[tuple(x) for x in spec["links"]])
    try:
        doc, warn = CR.publish(text, overrides(witness["spec"].get("slugfunc", False)), real=True)
    except Exception as e:  # noqa
        return ("C09/exception:%s" % type(e).__name__, "%r on %r" % (e, text))
    err = check_document(doc, warn, spec)
    if err:
        return ("C09/%s" % err[0], "document %r: %s" % (text, err[1]))
    return None


def selftest(seed):
    problems = []
    setup()
    for text in ["(a)=\n# A b\n\n[t](#a) [](#a-b) [](#missing)\n", "# a\n\n# a\n\n[](#a-1)\n"]:
        a = CR.publish(text, {"myst_heading_anchors": 3}, real=True)[0].pformat()
        b = CR.publish(text, {"myst_heading_anchors": 3}, real=False)[0].pformat()
        if a != b:
            problems.append("instrumented pipeline differs from real on %r" % text)
    return problems
