"""C16 — HTML-to-AST parser: total, tree-consistent, exact round trip on well-formed HTML.

Encoded: myst_parser.parsers.parse_html (Tree, Element and subclasses, HtmlToAst handler methods, render/walk/find/
strip/deepcopy/reset_children/insert/__setitem__), instrumented from the current tree.
Family E (events): html.parser.HTMLParser's tokenizer is replaced by an arbitrary EVENT sequence (its documented
handler contract); family T (text): the real html.parser/_markupbase code runs through the regex shim on symbolic text.
"""
from __future__ import annotations

from symx import core
from symx.core import SBool, SInt, Unsupported, b_and, b_or, b_not
from symx.driver import Family, call_with_timeout
from symx.instrument import load_instrumented
from symx.sstr import SStr, new_str, new_int, new_bool, lift, join, contains

ID = "C16"
TECHNIQUE = "bounded symbolic execution (symx + z3) of the real HTML-to-AST classes under every bounded HTMLParser event sequence with symbolic attribute values and data; real html.parser through a symbolic regex engine on text templates"
LEVEL_TEXT = ("For every sequence of up to K HTMLParser events (start/end/startend tags over a small name set incl. void elements, data, comment, declaration, processing instruction, "
              "character and entity references) with symbolic attribute values and data, z3 shows on every path that the handlers never raise, the stack never empties, every element is "
              "reached exactly once by walk() with the right parent, that for well-formed sequences str(root) equals the reference serialisation of the events character by character, "
              "that strip()/deepcopy() leave the original untouched, and that find() returns exactly the matching elements in document order for every include_self/recurse combination and for class tokens "
              "separated by any ASCII white space; the real html.parser on text templates incl. marked sections.")
LEVEL_NOTE = ("The event family assumes html.parser's documented contract (handlers called in document order with lower-cased non-empty names; attribute values None or str). "
              "Degenerate in the event-kind dimension (case split), symbolic in attribute values/data/names' characters. The text family runs the real html.parser/_markupbase source "
              "through symx's regex engine (validated against re each run) for totality and round trip on templates.")
BUDGET_S = {"quick": 150, "thorough": 1200}
EXPLANATION = "Event sequences through the real handler methods + tree API; reference serialisation written in the harness; text templates through the instrumented html.parser."
ASSUMPTIONS = ["HTMLParser calls handlers in document order with lower-cased, non-empty tag names; attributes are (name, value|None) pairs",
               "well-formed = balanced non-void tags, no end tags for void elements, attribute values are strings without '\"', distinct attribute names, references terminated by ';'"]
OUTSIDE = ["html.parser's own tokenisation of arbitrary text beyond the text-family templates", "upper-case tag names / non-canonical spacing (not reproduced exactly by design)",
           "character references inside attribute values (html.parser unescapes them before MyST sees them)"]
STUBS = ["HTMLParser.feed -> event sequence (family E)"]
NONTRIVIAL_RULE = "paths whose event sequence built a tree of depth >= 2 or exercised the enclose()/void logic, and reached the round-trip obligation"

M = {}
NAMES = ["a", "b", "br", "img", "div"]
# the elements HTML parsers treat as void (the start tag is the whole element)
VOID = {"area", "base", "br", "col", "embed", "hr", "img", "input", "link", "meta", "param", "source", "track", "wbr"}
KINDS = ["start", "end", "startend", "data", "comment", "decl", "pi", "charref", "entityref"]


def setup():
    if M:
        return
    M.update(load_instrumented(["myst_parser.parsers.parse_html"]))


def T(v):
    return v if isinstance(v, bool) else bool(v)


def _eq(a, b):
    if isinstance(a, SStr) or isinstance(b, SStr):
        return SStr.of(a)._eq(b)
    return a == b


def make_events(eng, k, nattr, kinds=None, wellformed_only=False, names=None, concrete_data=False, aval_alpha='x" c'):
    ph = M["myst_parser.parsers.parse_html"]
    kinds = kinds or KINDS
    NAMES = names or globals()["NAMES"]
    ksel = [new_int(eng, "kind%d" % i, 0, len(kinds) - 1) for i in range(k)]
    nsel = [new_int(eng, "name%d" % i, 0, len(NAMES) - 1) for i in range(k)]
    na = [new_int(eng, "nattr%d" % i, 0, nattr) for i in range(k)]
    avals = [[new_str(eng, "av%d_%d" % (i, j), 2, alphabet=aval_alpha) for j in range(nattr)] for i in range(k)]
    anone = [[new_bool(eng, "an%d_%d" % (i, j)) for j in range(nattr)] for i in range(k)]
    alen = [[new_int(eng, "al%d_%d" % (i, j), 0, 2) for j in range(nattr)] for i in range(k)]
    data = [new_str(eng, "d%d" % i, 2, alphabet="t \n<") for i in range(k)]
    dlen = [new_int(eng, "dl%d" % i, 0, 2) for i in range(k)]  # '<!---->' and '<?>' are an empty comment / processing instruction
    ANAMES = ["class", "id"]

    state = {}

    def wit(m):
        evs = []
        for e in state.get("events", []):
            evs.append([e[0], eng.eval_model(m, e[1]) if len(e) > 1 else None, [[a, eng.eval_model(m, v)] for a, v in (e[2] if len(e) > 2 else [])]])
        return {"events": evs}

    eng.witness_fn = wit

    def body():
        events = []
        for i in range(k):
            kind = kinds[eng.concretize_int(ksel[i])]
            if kind in ("start", "end", "startend"):
                name = NAMES[eng.concretize_int(nsel[i])]
                attrs = []
                if kind != "end":
                    n = eng.concretize_int(na[i])
                    for j in range(n):
                        v = None if (not wellformed_only and bool(anone[i][j])) else lift(avals[i][j])[: eng.concretize_int(alen[i][j])]
                        attrs.append((ANAMES[j], v))
                events.append((kind, name, attrs))
            elif kind in ("comment", "pi") and not concrete_data:
                events.append((kind, lift(data[i])[: eng.concretize_int(dlen[i])]))
            else:
                events.append((kind, "t" if concrete_data else lift(data[i])))
        state["events"] = events
        run_events(eng, ph, events)
        return len(events)

    return body


def apply_events(ph, events):
    p = ph.HtmlToAst()
    p.struct.clear()
    for ev in events:
        kind = ev[0]
        if kind == "start":
            p.handle_starttag(ev[1], list(ev[2]))
        elif kind == "startend":
            p.handle_startendtag(ev[1], list(ev[2]))
        elif kind == "end":
            p.handle_endtag(ev[1])
        elif kind == "data":
            p.handle_data(ev[1])
        elif kind == "comment":
            p.handle_comment(ev[1])
        elif kind == "decl":
            p.handle_decl(ev[1])
        elif kind == "pi":
            p.handle_pi(ev[1])
        elif kind == "charref":
            p.handle_charref(ev[1])
        elif kind == "entityref":
            p.handle_entityref(ev[1])
        if len(p.struct.stack) == 0:
            raise StackEmpty()
    return p.struct.outmost


class StackEmpty(Exception):
    pass


def reference(events):
    """(is_wellformed: bool|SBool, serialisation) of an event sequence, written without looking at the implementation."""
    out = []
    open_ = []
    wf = []
    for ev in events:
        kind = ev[0]
        if kind in ("start", "startend"):
            name, attrs = ev[1], ev[2]
            parts = ["<", name]
            seen = set()
            for a, v in attrs:
                if a in seen:
                    wf.append(False)
                seen.add(a)
                if v is None:
                    # an attribute without a value (`<input disabled>`) is well-formed HTML and is written bare
                    parts += [" ", a]
                    continue
                wf.append(b_not(contains(v, '"')))
                parts += [" ", a, '="', v, '"']
            if kind == "startend":
                parts.append("/>")
            else:
                parts.append(">")
                if name not in VOID:
                    open_.append(name)
            out.append(join("", parts))
        elif kind == "end":
            name = ev[1]
            if name in VOID or not open_ or open_[-1] != name:
                wf.append(False)
            else:
                open_.pop()
                out.append("</%s>" % name)
        elif kind == "data":
            out.append(ev[1])
            wf.append(b_not(contains(ev[1], "<")))
        elif kind == "comment":
            out.append(join("", ["<!--", ev[1], "-->"]))
        elif kind == "decl":
            out.append(join("", ["<!", ev[1], ">"]))
        elif kind == "pi":
            out.append(join("", ["<?", ev[1], ">"]))
        elif kind == "charref":
            out.append(join("", ["&#", ev[1], ";"]))
        elif kind == "entityref":
            out.append(join("", ["&", ev[1], ";"]))
    if open_:
        wf.append(False)
    return b_and(*wf) if wf else True, (join("", out) if out else "")


def tree_model(events):
    """Expected tree as nested lists: [kind, name, attrs, children] following the documented nesting rule
    (an end tag closes the nearest open element of that name and everything opened inside it; unmatched end tags are ignored)."""
    root = ["root", "", [], []]
    stack = [root]
    for ev in events:
        kind = ev[0]
        if kind == "start":
            node = ["vtag" if ev[1] in VOID else "tag", ev[1], ev[2], []]
            stack[-1][3].append(node)
            if ev[1] not in VOID:
                stack.append(node)
        elif kind == "startend":
            stack[-1][3].append(["xtag", ev[1], ev[2], []])
        elif kind == "end":
            if ev[1] in VOID:
                continue
            for i in range(len(stack) - 1, 0, -1):
                if stack[i][1] == ev[1]:
                    del stack[i:]
                    break
        else:
            stack[-1][3].append([kind, ev[1], [], []])
    return root


def run_events(eng, ph, events):
    try:
        root = apply_events(ph, events)
    except StackEmpty:
        eng.fail("stack-empties")
    except Exception as exc:  # noqa
        eng.fail("handler-raises", "%s: %s" % (type(exc).__name__, exc))
    # (2) tree consistency against the model
    model = tree_model(events)
    cls = {"tag": ph.Tag, "vtag": ph.VoidTag, "xtag": ph.XTag, "data": ph.Data, "comment": ph.Comment, "decl": ph.Declaration, "pi": ph.Pi, "charref": ph.Char, "entityref": ph.Entity}
    seen = []

    def cmp(node, mod, parent):
        eng.require(node.parent is parent, "parent-pointer")
        eng.require(all(node is not s for s in seen), "element-twice")
        seen.append(node)
        kids = list(node)
        eng.require(len(kids) == len(mod[3]), "tree-shape", "children %d expected %d" % (len(kids), len(mod[3])))
        for c, mc in zip(kids, mod[3]):
            eng.require(type(c) is cls[mc[0]], "tree-node-class", "%s vs %s" % (type(c).__name__, mc[0]))
            if mc[0] in ("tag", "vtag", "xtag"):
                eng.require(c.name == mc[1], "tree-node-name")
            else:
                eng.require(_eq(c.data, mc[1]), "tree-node-data")
            cmp(c, mc, node)

    cmp(root, model, None)
    walked = list(root.walk(include_self=True))
    eng.require(len(walked) == len(seen) and all(a is b for a, b in zip(walked, seen)), "walk-order")
    # (3) round trip on well-formed sequences
    wf, ref = reference(events)
    try:
        text = root.render()
    except Exception as exc:  # noqa
        eng.fail("render-raises", "%s: %s" % (type(exc).__name__, exc))
    if T(wf):
        eng.require(_eq(text, ref), "round-trip")
        if any(e[0] == "start" for e in events):
            eng.note("roundtrip")
    # (4) strip / deepcopy leave the original untouched
    try:
        cp = root.deepcopy()
        st = root.strip(recurse=True)
    except Exception as exc:  # noqa
        eng.fail("copy-raises", "%s: %s" % (type(exc).__name__, exc))
    eng.require(_eq(root.render(), text), "strip-copy-alters-original")
    eng.require(_eq(cp.render(), text), "deepcopy-render")
    for n in walked:
        eng.require(all(n is not x for x in cp.walk(include_self=True)), "deepcopy-shares-node")
    for a, b in zip(walked[1:], list(cp.walk())):
        eng.require(a.parent is not None and b.parent is not None and type(a) is type(b), "deepcopy-structure")
    seen2 = list(root.walk(include_self=True))
    eng.require(len(seen2) == len(walked) and all(a is b for a, b in zip(seen2, walked)) and all(c.parent is p for p in seen2 for c in p), "strip-copy-alters-original")
    # stripped copy: no whitespace-only Data, everything else in order
    kept = [n for n in walked[1:] if not (isinstance(n, ph.Data) and len(n.data.strip()) == 0)]
    got = list(st.walk())
    eng.require(len(got) == len(kept) and all(type(a) is type(b) for a, b in zip(got, kept)), "strip-result")
    # (5) find
    for name in ("a", "img"):
        try:
            res = list(root.find(name))
        except Exception as exc:  # noqa
            eng.fail("find-raises", "%s: %s" % (type(exc).__name__, exc))
        exp = [n for n in walked[1:] if n.name == name]
        eng.require(len(res) == len(exp) and all(a is b for a, b in zip(res, exp)), "find-by-name")
    # every include_self / recurse combination, from the root and from the first element below it
    starts = [root] + [n for n in walked[1:2]]
    for st_ in starts:
        for inc in (False, True):
            for rec in (False, True):
                try:
                    res = list(st_.find(ph.Element, include_self=inc, recurse=rec))
                except Exception as exc:  # noqa
                    eng.fail("find-raises", "find(include_self=%s, recurse=%s) raised %s: %s" % (inc, rec, type(exc).__name__, exc))
                exp = ([st_] if inc else []) + (list(st_.walk()) if rec else list(st_))
                eng.require(len(res) == len(exp) and all(a is b for a, b in zip(res, exp)), "find-flags", "include_self=%s recurse=%s from %s: %d results, expected %d" % (inc, rec, type(st_).__name__, len(res), len(exp)))
    try:
        res = list(root.find(ph.Tag, classes=["x"]))
    except Exception as exc:  # noqa
        eng.fail("find-raises", "find(classes=...) raised %s: %s" % (type(exc).__name__, exc))
    exp = []
    for n in walked[1:]:
        if isinstance(n, ph.Tag):
            v = dict.get(n.attrs, "class", "")
            words = v.split() if v is not None else []
            if any(T(_eq(w, "x")) for w in words):
                exp.append(n)
    eng.require(len(res) == len(exp) and all(a is b for a, b in zip(res, exp)), "find-by-class")
    try:
        res = list(root.find("div", attrs={"id": "x"}))
    except Exception as exc:  # noqa
        eng.fail("find-raises", "find(attrs=...) raised %s: %s" % (type(exc).__name__, exc))
    exp = [n for n in walked[1:] if n.name == "div" and dict.get(n.attrs, "id", "") is not None and T(_eq(dict.get(n.attrs, "id", ""), "x"))]
    eng.require(len(res) == len(exp) and all(a is b for a, b in zip(res, exp)), "find-by-attr")
    return root


def make_mutators(eng):
    """insert / __setitem__ / reset_children / append keep parent pointers; foreign parents are refused."""
    ph = M["myst_parser.parsers.parse_html"]
    op = new_int(eng, "op", 0, 3)
    idx = new_int(eng, "idx", 0, 2)
    foreign = new_bool(eng, "foreign")
    eng.witness_fn = lambda m: {"op": eng.eval_model(m, op), "idx": eng.eval_model(m, idx), "foreign": eng.eval_model(m, foreign)}

    def body():
        root = ph.Root()
        for n in ("a", "b"):
            root.append(ph.Tag(n))
        other = ph.Root()
        item = ph.Tag("new")
        fo = bool(foreign)
        if fo:
            other.append(item)
        o = eng.concretize_int(op)
        i = eng.concretize_int(idx)
        try:
            if o == 0:
                root.insert(i, item)
            elif o == 1:
                if i >= 2:
                    raise core.PathAbort("index out of range")
                root[i] = item
            elif o == 2:
                root.append(item)
            else:
                root.reset_children([item] + root.children)
            raised = False
        except AssertionError:
            raised = True
        eng.require(raised == fo, "foreign-parent-check", "op %d foreign=%s raised=%s" % (o, fo, raised))
        if not raised:
            eng.require(item.parent is root and any(c is item for c in root), "mutator-parent")
            eng.require(all(c.parent is root for c in root), "mutator-parent")
        else:
            eng.require(item.parent is other and not any(c is item for c in root), "refused-but-changed")
        eng.note("roundtrip")
        return o

    return body


# -------------------------------------------------------------- text family

TM = {}


def setup_text():
    if TM:
        return
    mods = load_instrumented(["_markupbase", "html", "html.parser", "myst_parser.parsers.parse_html"])
    TM.update(mods)


def make_text(eng, spec, exact=False):
    setup_text()
    ph = TM["myst_parser.parsers.parse_html"]
    cps = []
    k = 0
    for seg in spec:
        if isinstance(seg, str):
            cps.extend(ord(c) for c in seg)
        else:
            n, alpha = seg
            cps.extend(new_str(eng, "s%d" % k, n, alphabet=alpha).cps)
            k += 1
    text = lift(SStr(cps))
    eng.witness_fn = lambda m: {"text": eng.eval_model(m, text)}

    def body():
        try:
            root = ph.tokenize_html(text)
        except Exception as exc:  # noqa
            eng.fail("tokenize-raises", "%s: %s" % (type(exc).__name__, exc))
        seen = []
        for n in root.walk(include_self=True):
            eng.require(all(n is not s for s in seen), "element-twice")
            seen.append(n)
            for c in n:
                eng.require(c.parent is n, "parent-pointer")
        try:
            out = root.render()
        except Exception as exc:  # noqa
            eng.fail("render-raises", "%s: %s" % (type(exc).__name__, exc))
        if exact:
            eng.require(_eq(out, text), "unterminated-text-lost", "the rendered tree differs from the input")
        if len(seen) > 1:
            eng.note("roundtrip")
        return len(seen)

    return body


POISON = ["<div cla", "a &am", "<!-- x", "<script>", "<a b=\"", "</"]


def make_text_sequence(eng, k):
    """Two calls in a row: an unterminated text first, then a well-formed one: the second result must not depend on the first."""
    setup_text()
    ph = TM["myst_parser.parsers.parse_html"]
    psel = new_int(eng, "poison", 0, len(POISON) - 1)
    ksel = [new_int(eng, "kind%d" % i, 0, 4) for i in range(k)]
    val = new_str(eng, "v", 1, alphabet="xc")
    eng.witness_fn = lambda m: {"poison": POISON[eng.eval_model(m, psel)], "second": eng.eval_model(m, state.get("text", ""))}
    state = {}
    PIECES = ["<p class=\"", "<br>", "t", "<!--c-->", "&amp;"]

    def body():
        poison = POISON[eng.concretize_int(psel)]
        parts = []
        closers = []
        for i in range(k):
            kd = eng.concretize_int(ksel[i])
            if kd == 0:
                parts.append(join("", ["<p class=\"", val, "\">"]))
                closers.append("</p>")
            else:
                parts.append(PIECES[kd])
        text = join("", parts + closers[::-1])
        state["text"] = text
        try:
            ph.tokenize_html(poison)
        except Exception:  # noqa
            pass
        try:
            root = ph.tokenize_html(text)
            out = root.render()
        except Exception as exc:  # noqa
            eng.fail("tokenize-raises", "%s: %s" % (type(exc).__name__, exc))
        eng.require(_eq(out, text), "round-trip-after-previous-call")
        eng.note("roundtrip")
        return "ok"

    return body


def families(tier, seed):
    q = tier == "quick"
    F = []
    if q:
        F.append(Family("events/K2-A1", make_events, "all sequences of 2 events over %d kinds, names %r, <=1 attribute" % (len(KINDS), NAMES), args=dict(k=2, nattr=1), nontrivial="roundtrip", max_forks=50000))
    for k in ([1, 2] if q else [2, 3]):
        if False:
            break
        F.append(Family("events/K%d" % k, make_events, "all sequences of %d events over %d kinds, names %r, <=%d attributes (class/id) with value None or 2 symbolic chars over 'x\" c', data 2 chars over 't \\n<'" % (
            k, len(KINDS), NAMES, 2 if k <= 2 else 1), args=dict(k=k, nattr=(2 if k <= 2 else 1)), nontrivial=("roundtrip" if k >= 2 else None), max_forks=50000, required=(k <= (1 if q else 2))))
    for k in ([4] if q else [5, 6]):
        F.append(Family("tags/K%d" % k, make_events, "all sequences of %d start/end/startend/data events over names a,b,br (nesting logic), no attributes, concrete data" % k,
                        args=dict(k=k, nattr=0, kinds=["start", "end", "startend", "data"], names=["a", "b", "br"], concrete_data=True), nontrivial="roundtrip", max_forks=50000,
                        required=(k <= (4 if q else 5))))
    F.append(Family("events/void-names", make_events, "2 events (start/end/data) over every void element name of HTML %r and 'p': a void start tag never opens a scope, its end tag is ignored" % (sorted(VOID),),
                    args=dict(k=2, nattr=0, kinds=["start", "end", "data"], names=sorted(VOID) + ["p"], concrete_data=True), nontrivial="roundtrip", max_forks=50000))
    F.append(Family("events/K2-A1-whitespace", make_events, "2 events (start/startend/end/data), <=1 attribute whose value is <=2 chars over 'x' + space, tab, newline, form feed, CR (class tokens are separated by any ASCII white space)",
                    args=dict(k=2, nattr=1, aval_alpha="x \t\n\x0c\r", kinds=["start", "startend", "end", "data"], concrete_data=True), nontrivial="roundtrip", max_forks=50000))
    F.append(Family("mutators", make_mutators, "insert/__setitem__/append/reset_children x index x foreign-parent", nontrivial="roundtrip"))
    F.append(Family("text/sequence", make_text_sequence, "an unterminated text from %r, then a well-formed text of 3 pieces: round trip of the second call" % (POISON,), args=dict(k=3), nontrivial="roundtrip", max_forks=20000))
    tpl = [("attr", ["<a ", (3, 'c="x '), ">t</a>"]), ("tag", ["<", (3, "ab/ >"), "x"]), ("ref", ["a&", (3, "#x1a;"), "b"]), ("comment", ["<!", (3, "-a>"), "-->"]),
           ("close", ["<a><b>", (4, "</ab>"), ""]), ("marked", ["a<![", (3, "CDi[ ]>1"), "]]>b"]), ("decl", ["<!", (3, "D[a ->"), ">t"])]
    F.append(Family("text/unterminated", make_text, "real html.parser on 'x<b>y</b> ' + 3 symbolic chars over '</!-a#?' (a tag, comment or declaration that is still open at the end of the text): nothing is lost, the tree renders the input exactly "
                    "(an unfinished '&ref' is outside: the standard library drops its '&' on close)",
                    args=dict(spec=["x<b>y</b> ", (3, "</!-a#?")], exact=True), nontrivial=None, max_forks=20000))
    for name, spec in tpl:
        F.append(Family("text/%s" % name, make_text, "real html.parser on template %r" % ("".join(s if isinstance(s, str) else "<%d:%s>" % s for s in spec),),
                        args=dict(spec=spec), nontrivial=None, required=False, max_forks=20000))
    return F


# ------------------------------------------------------------------- replay


class _CE:
    def require(self, cond, label, detail=""):
        if not (cond if isinstance(cond, bool) else bool(cond)):
            raise _Fail(label, detail)

    def fail(self, label, detail=""):
        raise _Fail(label, detail)

    def note(self, *a):
        pass


class _Fail(Exception):
    def __init__(self, label, detail):
        self.label, self.detail = label, detail


def replay(label, witness):
    if label == "unterminated-text-lost" and "text" in witness:
        import myst_parser.parsers.parse_html as real_

        out = real_.tokenize_html(witness["text"]).render()
        return None if out == witness["text"] else ("C16/unterminated-text-lost", "tokenize_html(%r).render() == %r" % (witness["text"], out))
    import myst_parser.parsers.parse_html as real

    if "poison" in witness:
        try:
            try:
                real.tokenize_html(witness["poison"])
            except Exception:  # noqa
                pass
            out = str(real.tokenize_html(witness["second"]))
        except Exception as e:  # noqa
            return ("C16/sequence-exception:%s" % type(e).__name__, "tokenize_html(%r) after tokenize_html(%r) raised %r" % (witness["second"], witness["poison"], e))
        if out != witness["second"]:
            return ("C16/sequence-dependence", "tokenize_html(%r) rendered %r after a previous call tokenize_html(%r)" % (witness["second"], out, witness["poison"]))
        return None
    if "text" in witness:
        t = witness["text"]
        try:
            root = call_with_timeout(real.tokenize_html, 5, t)
            seen = []
            for n in root.walk(include_self=True):
                if any(n is s for s in seen):
                    return ("C16/text-element-twice", "tokenize_html(%r)" % t)
                seen.append(n)
                for c in n:
                    if c.parent is not n:
                        return ("C16/text-parent", "tokenize_html(%r)" % t)
            root.render()
        except TimeoutError:
            return ("C16/termination", "tokenize_html(%r) did not terminate" % t)
        except Exception as e:  # noqa
            return ("C16/text-exception:%s" % type(e).__name__, "tokenize_html(%r) raised %r" % (t, e))
        return None
    if "op" in witness:
        return None
    events = [(e[0], e[1], [tuple(a) for a in e[2]]) if e[0] in ("start", "end", "startend") else (e[0], e[1]) for e in witness["events"]]
    try:
        run_events(_CE(), real, events)
    except _Fail as f:
        none_attr = any(v is None for e in events if len(e) > 2 for a, v in e[2])
        return ("C16/%s%s" % (f.label, ":valueless-attribute" if none_attr and f.label in ("find-raises", "handler-raises", "render-raises") else ""),
                "events %r: %s %s" % (events, f.label, f.detail))
    return None


def selftest(seed):
    import random
    import myst_parser.parsers.parse_html as real

    ph = M["myst_parser.parsers.parse_html"]
    problems = []
    rnd = random.Random(seed)
    import glob

    texts = [open(f, encoding="utf8").read() for f in glob.glob("/repo/tests/test_html/*.md")][:20]
    for _ in range(200):
        texts.append("".join(rnd.choice(["<a>", "</a>", "<b c=\"x\">", "</b>", "<br>", "<img/>", "t", " ", "<!--c-->", "&amp;", "&#1;", "<!D>", "<?p>", "<", ">", '"']) for _ in range(rnd.randint(0, 8))))
    for t in texts:
        try:
            a = str(real.tokenize_html(t))
            b = str(ph.tokenize_html(t))
        except Exception as e:  # noqa
            a, b = "exc", "exc"
        if a != b:
            problems.append("instrumented parse_html differs from real on %r" % t[:60])
            break
    return problems
