"""C02 — the doctree is a faithful image of the Markdown token tree.

Encoded: DocutilsRenderer._render_tokens / render_children and the render_* methods for CommonMark/GFM/MyST static
syntax, render_link dispatch, render_image, render_ordered_list, render_table(_row), render_fence/code_block,
copy_attributes (base.py) — instrumented; markdown-it (tokenizer, SyntaxTreeNode) and docutils native.
"""
from __future__ import annotations

from markdown_it.token import Token

from symx import core
from symx.core import SBool, SInt
from symx.driver import Family
from symx.sstr import SStr, new_str, new_int, new_bool, lift, join
from harness import common_render as CR

ID = "C02"
TECHNIQUE = "symbolic attribute values (link destinations, image sources, list start numbers, code languages) through the instrumented render methods with z3 proving they are carried unchanged; solver-enumerated grammar documents compared leaf-by-leaf and container-by-container with markdown-it's own syntax tree"
LEVEL_TEXT = ("(a) For every link destination up to the length bound over an alphabet with '#', ':', '/', '.', letters, the real render_link dispatch produces exactly one reference whose destination "
              "attribute equals the source destination (refuri for anchors and known schemes, refname otherwise) and whose text is rendered once; image URI/alt, ordered-list start (any integer) and "
              "suffix, code language are proved to be carried unchanged. (b) For every document of the bounded block/inline grammar, in strict CommonMark and MyST mode, the sequence of leaves "
              "(text, inline code, code blocks, raw HTML, thematic breaks, images) of the doctree equals that of markdown-it's syntax tree, each under the corresponding chain of containers, and the "
              "docutils and Sphinx renderers agree on everything that is not a link. (c) Pipe tables with every alignment x empty/plain/emphasised cells; code blocks in 6 styles x 7 languages x 11 texts "
              "(verbatim text, language kept); MyST extension syntax (math, definition/field/task lists, strikethrough, span and block attributes) leaf by leaf; the Sphinx renderer's pending_xref carries "
              "a non-URL destination unchanged.")
LEVEL_NOTE = ("Reduced scope (see DESIGN): the tokenizer is trusted; math, definition/field lists and GFM mode (needs linkify-it-py, not importable here) are outside; verbatim code through pygments "
              "highlighting is checked only via the literal_block text.")
BUDGET_S = {"quick": 240, "thorough": 1500}
EXPLANATION = "Hand-built tokens with symbolic attribute values; grammar documents through real markdown-it + instrumented renderer; parallel walk of SyntaxTreeNode and doctree."
ASSUMPTIONS = ["markdown-it's SyntaxTreeNode is the reference for nesting and leaf content", "url_schemes is the default (http, https, mailto, ftp)"]
OUTSIDE = ["GFM mode (linkify-it-py not importable)", "math, definition lists, field lists, substitutions", "pygments token splitting inside highlighted code", "arbitrary nesting depth beyond the grammar"]
STUBS = ["Sphinx env for the SphinxRenderer comparison: minimal object (docname, srcdir=None)"]
NONTRIVIAL_RULE = "paths with a nested container (list in quote etc.) or a non-trivial attribute value"


def setup():
    CR.setup()


def T(v):
    return v if isinstance(v, bool) else bool(v)


def _eq(a, b):
    if isinstance(a, SStr) or isinstance(b, SStr):
        return SStr.of(a)._eq(b)
    return a == b


# ------------------------------------------------------------------ (a) attributes


def make_link(eng, n, alphabet):
    setup()
    href = lift(new_str(eng, "h", n, alphabet=alphabet)) if n else ""
    ext = new_bool(eng, "all_links_external")
    eng.witness_fn = lambda m: {"href": eng.eval_model(m, href), "all_links_external": eng.eval_model(m, ext)}

    def body():
        from docutils import nodes

        e = bool(ext)
        ctx = CR.new_context(config={"all_links_external": e})
        link = [Token("link_open", "a", 1, attrs={"href": href}), Token("text", "", 0, content="linktext"), Token("link_close", "a", -1)]
        try:
            ctx.renderer._render_tokens(CR.paragraph(0, "linktext", children=link))
        except Exception as exc:  # noqa
            eng.fail("render-raises", "%s: %s" % (type(exc).__name__, exc))
        refs = list(ctx.document.findall(nodes.reference))
        ntext = sum(1 for t in ctx.document.findall(nodes.Text) if str(t) == "linktext" and not isinstance(t.parent.parent, nodes.system_message))
        eng.require(ntext == 1, "link-text-count", "the link text occurs %d times in the document" % ntext)
        if len(href) >= 4 and T(_starts(href, "inv:")) and not e:
            # inventory link without any inventory: one iref_missing warning, text kept, no reference
            eng.require(len(refs) == 0 and len([m for m in CR.messages(ctx.document) if "[myst.iref_missing]" in m.astext()]) == 1, "inv-missing")
            eng.note("attr")
            return "inv"
        eng.require(len(refs) == 1, "link-count", "%d reference nodes" % len(refs))
        r = refs[0]
        eng.require(r.astext() == "linktext", "link-text", r.astext())
        dest = r.get("refuri") if "refuri" in r else r.get("refname")
        eng.require(dest is not None, "link-destination-missing")
        # destination carried unchanged (the alphabet has no characters that escapeHtml / normalizeLinkText alter)
        eng.require(_eq(dest, href), "link-destination-changed")
        if len(href) and T(SStr.of(href)._eq(href) if False else _starts(href, "#")):
            eng.require(bool(r.get("id_link")) != e, "anchor-link-kind")
        eng.note("attr")
        return "ok"

    return body


class _SphinxLinkEnv:
    """Sphinx environment stub for the link methods: no source directory (so no file-system probing), no documents."""

    docname = "index"
    srcdir = ""
    temp_data = {}
    metadata = {}

    def relfn2path(self, filename, docname=None):
        return filename, "/nonexistent-symx/" + filename

    def path2doc(self, path):
        return None

    class config:
        suppress_warnings = []
        myst_ref_domains = None
        highlight_language = "default"


SPX = {}


def sphinx_context(real=False):
    from myst_parser.config.main import MdParserConfig
    from myst_parser.parsers.mdit import create_md_parser

    if real:
        import myst_parser.mdit_to_docutils.sphinx_ as sp
    else:
        if not SPX:
            from symx.instrument import load_instrumented

            SPX.update(load_instrumented(["myst_parser.mdit_to_docutils.sphinx_"], using=CR.R))
        sp = SPX["myst_parser.mdit_to_docutils.sphinx_"]
    ctx = CR.new_context(real=real, sphinx_env=_SphinxLinkEnv())
    md = create_md_parser(MdParserConfig(), sp.SphinxRenderer)
    md.options["document"] = ctx.document
    r = md.renderer
    r.setup_render(md.options, {})
    ctx.renderer, ctx.md = r, md
    return ctx


def check_sphinx_link(ctx, href):
    """Sphinx back end: the destination of a non-URL link reaches the pending_xref unchanged (incl. '#fragment')."""
    from docutils import nodes

    link = [Token("link_open", "a", 1, attrs={"href": href}), Token("text", "", 0, content="linktext"), Token("link_close", "a", -1)]
    ctx.renderer._render_tokens(CR.paragraph(0, "linktext", children=link))
    ntext = sum(1 for t in ctx.document.findall(nodes.Text) if str(t) == "linktext" and not isinstance(t.parent.parent, nodes.system_message))
    if ntext != 1:
        return ("link-text-count", "Sphinx renderer: the link text occurs %d times" % ntext)
    hs = str(href)
    xrefs = [n for n in ctx.document.findall() if getattr(n, "tagname", "") == "pending_xref"]
    refs = list(ctx.document.findall(nodes.reference))
    if hs.startswith("#"):
        if len(refs) != 1 or not refs[0].get("id_link") or refs[0].get("refuri") != hs:
            return ("sphinx-anchor-link", "Sphinx renderer: '#' link %r -> references %r" % (hs, [(r.attributes) for r in refs]))
        return None
    if len(xrefs) != 1 or refs:
        return ("sphinx-link-count", "Sphinx renderer: link %r -> %d pending_xref, %d reference nodes" % (hs, len(xrefs), len(refs)))
    x = xrefs[0]
    if x.get("reftarget") != hs or x.get("reftype") != "myst" or not x.get("refexplicit"):
        return ("sphinx-link-destination-changed", "Sphinx renderer: link destination %r became reftarget %r (reftype %r explicit %r)" % (hs, x.get("reftarget"), x.get("reftype"), x.get("refexplicit")))
    if x.astext() != "linktext":
        return ("link-text", "Sphinx renderer: link text %r" % x.astext())
    return None


def make_link_sphinx(eng, n, alphabet):
    setup()
    sphinx_context()  # load the instrumented module before forking
    href = lift(new_str(eng, "h", n, alphabet=alphabet))
    eng.witness_fn = lambda m: {"sphinx_href": eng.eval_model(m, href)}

    def body():
        h = href.concretize() if hasattr(href, "concretize") else href
        ctx = sphinx_context()
        try:
            err = check_sphinx_link(ctx, h)
        except Exception as exc:  # noqa
            eng.fail("render-raises", "%s: %s" % (type(exc).__name__, exc))
        if err:
            eng.fail(*err)
        eng.passed(3)
        eng.note("attr")
        return "ok"

    return body


def _starts(s, p):
    return s.startswith(p)


# ------------------------------------------------------------ the docutils line-length limit: a line is refused only when it is LONGER than the limit


def check_long_line(limit, delta, pos, real=False):
    from docutils import nodes

    n = limit + delta
    long_line = ("x" * n)
    lines = ["first", "", "second"]
    lines[pos * 2 if pos < 2 else 2] = long_line
    text = "\n".join(lines) + "\n"
    doc, warn = CR.publish(text, {"line_length_limit": limit, "report_level": 5}, real=real)
    paras = [p_.astext() for p_ in doc.findall(nodes.paragraph) if not isinstance(p_.parent, nodes.system_message)]
    if delta <= 0 and long_line not in paras:
        return ("line-at-limit-refused", "a line of %d characters with line_length_limit=%d: paragraphs %r" % (n, limit, [x[:30] for x in paras]))
    if delta > 0 and long_line in paras and not list(doc.findall(nodes.system_message)):
        return None  # (rendering a longer line is not a fidelity problem)
    return None


def make_long_line(eng):
    CR.setup_pipeline()
    c = CR.Choice(eng)
    state = {}
    eng.witness_fn = lambda m: dict(state)

    def body():
        c.reset()
        limit, delta, pos = c.pick([10, 20, 200]), c.pick([-1, 0, 1]), c.choose(3)
        state.update(long_line=[limit, delta, pos])
        try:
            err = check_long_line(limit, delta, pos)
        except Exception as exc:  # noqa
            eng.fail("render-raises", "%s: %s" % (type(exc).__name__, exc))
        if err:
            eng.fail(*err)
        eng.passed(1)
        eng.note("attr")
        return "ok"

    return body


# ------------------------------------------------------------ links converted through a url_schemes template

SCHEME_CONFIGS = [{"http": None, "wiki": {"url": "https://w.invalid/{{path}}#{{fragment}}", "title": "T {{path}}", "classes": ["wk"]}, "doi": "https://doi.invalid/{{path}}"},
                  {"wiki": {"url": "https://w.invalid/{{path}}#{{fragment}}"}, "doi": {"url": "https://doi.invalid/{{path}}", "title": "{{uri}}"}}]
SCHEME_PATHS = ["Page", "a/b", "P#frag", "10.1/x_y"]


def check_scheme_links(ci, scheme, pi, real=False):
    """An explicit text is carried into the link leaf by leaf whatever the template says; only a text-less link or an autolink takes the title template."""
    from docutils import nodes

    path = SCHEME_PATHS[pi]
    dest = "%s:%s" % (scheme, path)
    text = "[some *text* `c`](%s)\n\n<%s>\n\n[](%s)\n" % (dest, dest, dest)
    ctx = CR.new_context(real=real, config={"url_schemes": SCHEME_CONFIGS[ci]})
    ctx.renderer._render_tokens(ctx.md.parse(text, ctx.renderer.md_env))
    paras = [p_ for p_ in ctx.document.findall(nodes.paragraph) if not isinstance(p_.parent, nodes.system_message)]
    if len(paras) != 3:
        return ("scheme-link-paragraphs", "%d paragraphs" % len(paras))
    conv = SCHEME_CONFIGS[ci][scheme]
    conv = {"url": conv} if isinstance(conv, str) else conv
    p_, _, frag = path.partition("#")
    parts = {"uri": dest, "scheme": scheme, "path": p_, "fragment": frag}
    fill = lambda t: t.replace("{{path}}", parts["path"]).replace("{{fragment}}", parts["fragment"]).replace("{{uri}}", parts["uri"])  # noqa
    want_uri = fill(conv["url"])
    for k, para in enumerate(paras):
        refs = list(para.findall(nodes.reference))
        if len(refs) != 1:
            return ("scheme-link-count", "%d references for %r" % (len(refs), text.split("\n\n")[k]))
        r = refs[0]
        if r.get("refuri") != want_uri:
            return ("scheme-link-uri", "%r through %r gives refuri %r, expected %r" % (dest, conv, r.get("refuri"), want_uri))
        if k == 0:
            leaves = [(type(n_.parent).__name__, str(n_)) for n_ in r.findall(nodes.Text)]
            if leaves != [("reference", "some "), ("emphasis", "text"), ("reference", " "), ("literal", "c")]:
                return ("scheme-link-text-lost", "[some *text* `c`](%s) with url_schemes %r renders the link text as %r" % (dest, conv, leaves))
        else:
            want = fill(conv["title"]) if "title" in conv else (dest if k == 1 else "")  # (a text-less link without a title template has no text, as in CommonMark)
            if r.astext() != want:
                return ("scheme-link-implicit-text", "%r with url_schemes %r shows %r, expected %r" % (text.split("\n\n")[k], conv, r.astext(), want))
    return None


def make_scheme_links(eng):
    setup()
    c = CR.Choice(eng)
    state = {}
    eng.witness_fn = lambda m: dict(state)

    def body():
        c.reset()
        ci, scheme, pi = c.choose(len(SCHEME_CONFIGS)), c.pick(["wiki", "doi"]), c.choose(len(SCHEME_PATHS))
        state.update(scheme_link=[ci, scheme, pi])
        try:
            err = check_scheme_links(ci, scheme, pi)
        except Exception as exc:  # noqa
            eng.fail("render-raises", "%s: %s" % (type(exc).__name__, exc))
        if err:
            eng.fail(*err)
        eng.passed(3)
        eng.note("attr")
        return "ok"

    return body


def make_image(eng, n):
    setup()
    src = lift(new_str(eng, "s", n, alphabet="a/.:h#"))
    alt = lift(new_str(eng, "a", 2, alphabet="a b*"))
    eng.witness_fn = lambda m: {"src": eng.eval_model(m, src), "alt": eng.eval_model(m, alt)}

    def body():
        from docutils import nodes

        ctx = CR.new_context()
        img = Token("image", "img", 0, attrs={"src": src, "alt": ""}, children=[Token("text", "", 0, content=alt)], content=alt)
        try:
            ctx.renderer._render_tokens(CR.paragraph(0, "x", children=[img]))
        except Exception as exc:  # noqa
            eng.fail("render-raises", "%s: %s" % (type(exc).__name__, exc))
        imgs = list(ctx.document.findall(nodes.image))
        eng.require(len(imgs) == 1, "image-count")
        eng.require(_eq(imgs[0]["uri"], src), "image-uri-changed")
        eng.require(_eq(imgs[0]["alt"], alt), "image-alt-changed")
        eng.note("attr")
        return "ok"

    return body


def make_olist(eng):
    setup()
    start = new_int(eng, "start")  # any integer
    has_start = new_bool(eng, "has_start")
    suffix = new_int(eng, "suffix", 0, 1)
    eng.witness_fn = lambda m: {"start": eng.eval_model(m, start), "has_start": eng.eval_model(m, has_start), "suffix": eng.eval_model(m, suffix)}

    def body():
        from docutils import nodes

        hs = bool(has_start)
        sfx = ".)"[eng.concretize_int(suffix)]
        ctx = CR.new_context()
        o = Token("ordered_list_open", "ol", 1, map=[0, 2], markup=sfx, block=True)
        if hs:
            o.attrs = {"start": start}
        toks = [o, Token("list_item_open", "li", 1, map=[0, 1], markup=sfx, block=True)] + CR.paragraph(0, "item") + [Token("list_item_close", "li", -1, block=True), Token("ordered_list_close", "ol", -1, markup=sfx, block=True)]
        try:
            ctx.renderer._render_tokens(toks)
        except Exception as exc:  # noqa
            eng.fail("render-raises", "%s: %s" % (type(exc).__name__, exc))
        ls = list(ctx.document.findall(nodes.enumerated_list))
        eng.require(len(ls) == 1 and ls[0]["suffix"] == sfx and ls[0]["enumtype"] == "arabic", "olist-style")
        if hs:
            eng.require("start" in ls[0], "olist-start-dropped")
            eng.require(ls[0]["start"] == start, "olist-start-changed")
        else:
            eng.require("start" not in ls[0], "olist-start-invented")
        eng.note("attr")
        return "ok"

    return body


def make_fence(eng, n):
    setup()
    lang = lift(new_str(eng, "l", n, alphabet="py-+3 \t"))
    eng.witness_fn = lambda m: {"lang": eng.eval_model(m, lang)}

    def body():
        from docutils import nodes

        ctx = CR.new_context(config={"highlight_code_blocks": False})
        try:
            ctx.renderer._render_tokens(CR.fence(0, lang, "code <&> line\n  indented\n"))
        except Exception as exc:  # noqa
            eng.fail("render-raises", "%s: %s" % (type(exc).__name__, exc))
        blocks = list(ctx.document.findall(nodes.literal_block))
        eng.require(len(blocks) == 1, "code-block-count")
        eng.require(blocks[0].astext() == "code <&> line\n  indented\n" or blocks[0].astext() == "code <&> line\n  indented", "code-text-changed", repr(blocks[0].astext()))
        words = lang.split() if len(lang) else []
        if words and not T(_starts(words[0], "{")):
            got = blocks[0].get("language") or (blocks[0]["classes"][-1] if len(blocks[0]["classes"]) > 1 else None)
            eng.require(got is not None and T(_eq(got, words[0])), "code-language-changed")
        eng.note("attr")
        return "ok"

    return body


# ------------------------------------------------------------------ (b) structure

INL = ["plain", "em", "strong", "code", "link", "image", "html", "nested-em", "image-rich"]
BLK = ["para", "list", "olist", "quote", "code", "fence", "hr", "heading", "table", "html", "quote-list"]


def inline_md(kind, n):
    return {"plain": "w%d text" % n, "em": "*e%d*" % n, "strong": "**s%d**" % n, "code": "`c%d  x`" % n, "link": "[l%d *x*](http://u/%d)" % (n, n), "image": "![alt%d](img%d.png)" % (n, n),
            "html": "<b>h%d</b>" % n, "nested-em": "*a%d **b%d** c*" % (n, n),
            # the alt text of an image is the plain text of its description, nested markup and nested images included
            "image-rich": "![r%d *em* ![in%d](i%d.png) `c` z](o%d.png)" % (n, n, n, n)}[kind]


def block_md(c, kind, n):
    if kind in ("h1", "h3", "h4"):
        return ["#" * int(kind[1]) + " H%d" % n, "", "under %d" % n]
    if kind in ("code", "fence", "hr", "html"):
        i1 = i2 = ""
    else:
        i1 = inline_md(c.pick(INL), 10 * n)
        i2 = inline_md(c.pick(INL), 10 * n + 1) if kind != "heading" else ""
    if kind == "para":
        return ["P%d %s and %s" % (n, i1, i2), "second line"]
    if kind == "list":
        return ["- I%d %s" % (n, i1), "- %s" % i2, "  - nested %d" % n]
    if kind == "olist":
        return ["%d. O%d %s" % (3 + n, n, i1), "%d. %s" % (4 + n, i2)]
    if kind == "quote":
        return ["> Q%d %s" % (n, i1), ">", "> %s" % i2]
    if kind == "code":
        return ["    indented code %d <x>" % n, "      more"]
    if kind == "fence":
        return ["```py", "fenced %d &amp; *not em*" % n, "```"]
    if kind == "hr":
        return ["***"]
    if kind == "heading":
        return ["## H%d %s" % (n, i1)]
    if kind in ("h1", "h3", "h4"):
        return ["#" * int(kind[1]) + " H%d" % n, "", "under %d" % n]
    if kind == "table":
        return ["| a%d | %s |" % (n, i1), "|:--|--:|", "| 1 | %s |" % i2]
    if kind == "html":
        return ["<div>", "raw %d" % n, "</div>"]
    if kind == "quote-list":
        return ["> - QL%d %s" % (n, i1), ">   %s" % i2]
    raise ValueError(kind)


TOK2NODE = {"paragraph": "paragraph", "bullet_list": "bullet_list", "ordered_list": "enumerated_list", "list_item": "list_item", "blockquote": "block_quote", "em": "emphasis", "strong": "strong",
            "link": "reference", "heading": "heading", "table": "table", "thead": "thead", "tbody": "tbody", "tr": "row", "th": "entry", "td": "entry"}


def token_leaves(tree, path=()):
    out = []
    for ch in tree.children:
        t = ch.type
        if t in ("text",):
            if ch.content:
                out.append(("text", ch.content, path))
        elif t == "softbreak":
            out.append(("text", "\n", path))
        elif t == "code_inline":
            out.append(("literal", ch.content, path))
        elif t in ("code_block", "fence"):
            out.append(("literal_block", ch.content, path))
        elif t in ("html_inline", "html_block"):
            out.append(("raw", ch.content, path))
        elif t == "hr":
            out.append(("transition", "", path))
        elif t == "image":
            out.append(("image", (ch.attrGet("src"), _plain(ch)), path))
        elif t == "inline":
            out += token_leaves(ch, path)
        else:
            out += token_leaves(ch, path + ((TOK2NODE.get(t, t)),))
    return out


def _plain(tok):
    s = ""
    for ch in tok.children or []:
        if ch.type == "text":
            s += ch.content
        else:
            s += _plain(ch)
    return s


def node_leaves(node, path=()):
    from docutils import nodes

    out = []
    for ch in node.children:
        if isinstance(ch, nodes.Text):
            if str(ch):
                out.append(("text", str(ch), path))
        elif isinstance(ch, nodes.literal_block):
            out.append(("literal_block", ch.astext(), path))
        elif isinstance(ch, nodes.literal):
            out.append(("literal", ch.astext(), path))
        elif isinstance(ch, nodes.raw):
            out.append(("raw", ch.astext(), path))
        elif isinstance(ch, nodes.transition):
            out.append(("transition", "", path))
        elif isinstance(ch, nodes.image):
            out.append(("image", (ch["uri"], ch.get("alt", "")), path))
        elif isinstance(ch, nodes.system_message):
            continue
        else:
            tag = ch.tagname
            if tag in ("section", "tgroup", "colspec", "target"):
                out += node_leaves(ch, path)
            elif tag == "title":
                out += node_leaves(ch, path + ("heading",))
            elif tag == "paragraph" and path and path[-1] == "entry":
                out += node_leaves(ch, path)
            elif tag == "pending_xref" or tag == "inline" and path and path[-1] == "pending_xref":
                out += node_leaves(ch, path + (("reference",) if tag == "pending_xref" else ()))
            else:
                out += node_leaves(ch, path + (tag,))
    return out


def compare_doc(text, mode, real=False):
    """Returns None or (label, detail)."""
    from markdown_it.tree import SyntaxTreeNode

    cfg = {"commonmark_only": True} if mode == "commonmark" else {"enable_extensions": []}
    ctx = CR.new_context(real=real, config=dict(cfg, highlight_code_blocks=False))
    toks = ctx.md.parse(text, {})
    tl = token_leaves(SyntaxTreeNode(toks))
    toks2 = ctx.md.parse(text, ctx.renderer.md_env)
    ctx.renderer._render_tokens(toks2)
    nl = node_leaves(ctx.document)
    # normalise: raw html nodes of hard breaks do not occur in the grammar; literal_block may drop the final newline
    def norm(seq):
        return [(k, (c.rstrip("\n") if k in ("literal_block", "raw") else c), p) for k, c, p in seq]

    a, b = norm(tl), norm(nl)
    if [x[:2] for x in a] != [x[:2] for x in b]:
        for i, (x, y) in enumerate(zip(a, b)):
            if x[:2] != y[:2]:
                return ("leaf-differs", "mode %s: leaf %d is %r in the syntax tree but %r in the doctree" % (mode, i, x[:2], y[:2]))
        return ("leaf-count", "mode %s: %d leaves in the syntax tree, %d in the doctree" % (mode, len(a), len(b)))
    for x, y in zip(a, b):
        if x[2] != y[2]:
            return ("container-differs", "mode %s: leaf %r sits under %r in the syntax tree but under %r in the doctree" % (mode, x[:2], x[2], y[2]))
    # attributes: links, ordered lists, table alignment, code language
    from docutils import nodes

    for r in ctx.document.findall(nodes.reference):
        if not (r.get("refuri", "").startswith("http://u/")):
            return ("link-destination", "reference destination %r" % (r.get("refuri"),))
    import re

    starts = [int(m.group(1)) for m in re.finditer(r"^(\d+)\. O", text, re.M)]
    ls = [l for l in ctx.document.findall(nodes.enumerated_list)]
    if [l.get("start", 1) for l in ls] != starts[: len(ls)] and len(ls) == len(starts):
        return ("olist-start", "ordered list starts %r, source says %r" % ([l.get("start", 1) for l in ls], starts))
    for tb in ctx.document.findall(nodes.table):
        rows = list(tb.findall(nodes.row))
        for row in rows:
            cls = [e["classes"] for e in row.children]
            if cls != [["text-left"], ["text-right"]]:
                return ("table-alignment", "cell alignment classes %r" % (cls,))
    for lb in ctx.document.findall(nodes.literal_block):
        if lb.astext().startswith("fenced") and lb.get("language") != "py" and "py" not in lb["classes"]:
            return ("code-language", "fence language %r classes %r" % (lb.get("language"), lb["classes"]))
    return None


# ------------------------------------------------------------ tables: alignment and cell text for every column/cell arrangement

ALIGN = [("---", None), (":--", "text-left"), (":-:", "text-center"), ("--:", "text-right")]
CELLS = [("", ""), ("x%d", "x%d"), ("*e%d*", "e%d")]


def table_md(c, ncols, nrows, ncellkinds):
    al = [c.choose(len(ALIGN)) for _ in range(ncols)]
    cells = [[c.choose(ncellkinds) for _ in range(ncols)] for _ in range(1 + nrows)]
    n = [0]

    def cell(k):
        n[0] += 1
        src, txt = CELLS[k]
        return (src % n[0] if "%" in src else src), (txt % n[0] if "%" in txt else txt)

    grid = [[cell(k) for k in row] for row in cells]
    lines = ["| " + " | ".join(x[0] for x in grid[0]) + " |", "|" + "|".join(ALIGN[a][0] for a in al) + "|"]
    for row in grid[1:]:
        lines.append("| " + " | ".join(x[0] for x in row) + " |")
    return "\n".join(lines) + "\n", dict(align=al, grid=[[x[1] for x in row] for row in grid])


def check_table(text, spec, real=False):
    from docutils import nodes

    ctx = CR.new_context(real=real, config={"enable_extensions": []})
    ctx.renderer._render_tokens(ctx.md.parse(text, ctx.renderer.md_env))
    tables = list(ctx.document.findall(nodes.table))
    if len(tables) != 1:
        return ("table-count", "%d tables" % len(tables))
    rows = list(tables[0].findall(nodes.row))
    if len(rows) != len(spec["grid"]):
        return ("table-rows", "%d rows, source has %d" % (len(rows), len(spec["grid"])))
    if len(list(tables[0].findall(nodes.colspec))) != len(spec["align"]):
        return ("table-columns", "colspec count differs from the %d source columns" % len(spec["align"]))
    for ri, (row, want) in enumerate(zip(rows, spec["grid"])):
        entries = [e for e in row.children if isinstance(e, nodes.entry)]
        if len(entries) != len(want):
            return ("table-cells", "row %d has %d entries, source has %d cells" % (ri, len(entries), len(want)))
        for ci, (e, txt) in enumerate(zip(entries, want)):
            if e.astext() != txt:
                return ("table-cell-text", "row %d col %d shows %r, source cell is %r" % (ri, ci, e.astext(), txt))
            exp = ALIGN[spec["align"][ci]][1]
            if e["classes"] != ([exp] if exp else []):
                return ("table-alignment", "row %d col %d (cell %r) has classes %r, the column is aligned %r" % (ri, ci, txt, e["classes"], exp))
    if len(list(tables[0].findall(nodes.thead))) != 1 or (len(spec["grid"]) > 1) != bool(list(tables[0].findall(nodes.tbody))):
        return ("table-head-body", "thead/tbody structure differs")
    return None


def make_table(eng, ncols, nrows, ncellkinds):
    setup()
    c = CR.Choice(eng, n=48, width=15)
    state = {}
    eng.witness_fn = lambda m: dict(state)

    def body():
        c.reset()
        text, spec = table_md(c, ncols, nrows, ncellkinds)
        state.update(table=text, spec=spec)
        try:
            err = check_table(text, spec)
        except Exception as exc:  # noqa
            eng.fail("render-raises", "%s: %s" % (type(exc).__name__, exc))
        if err:
            eng.fail(err[0], err[1])
        eng.passed(3)
        if any(a for a in spec["align"]):
            eng.note("attr")
        return "ok"

    return body


# ------------------------------------------------------------ code blocks: verbatim text whether or not pygments splits it

CODE_LANGS = ["python", "", "nosuchlang", "c", "json", "text", "pycon"]
CODE_TEXTS = ["x = 1\n", "def f(a):\n    return \"\"\"s\n\n\"\"\"  # c\n", "\tt\tu\n", "  ind  \n", "a\x0cb\n", "<b>&amp;</b> *not em*\n", "café   z\n", ">>> 1 +\\\n... 2\n3\n",
              "\n\nx = 1\n", "x = 1\n\n\n", "{\"a\": [1, 2]}\n"]
CODE_STYLES = ["backtick", "tilde", "indented", "code-block", "code-numbered", "sphinx-fence"]


class _SphinxEnvStub:
    docname = "index"
    temp_data = {}
    metadata = {}

    class config:
        suppress_warnings = []
        highlight_language = "default"
        myst_ref_domains = None


def code_doc(lang, text, style):
    body = text[:-1].split("\n")
    if style in ("backtick", "sphinx-fence"):
        return ["````" + lang] + body + ["````"]
    if style == "tilde":
        return ["~~~~" + lang] + body + ["~~~~"]
    if style == "indented":
        return ["    " + l for l in body]
    if style == "code-block":
        return ["````{code-block} " + lang] + body + ["````"]
    return ["````{code} " + lang, ":number-lines: 3", ""] + body + ["````"]


def check_code(lang, text, style, real=False):
    from docutils import nodes

    if style == "indented" and (lang or not text.strip("\n") or text.startswith("\n") or text.endswith("\n\n") or text.startswith("  ")):
        return "skip"  # an indented block has no language and cannot start/end with blank lines
    if style in ("code-block", "code-numbered") and (text.startswith("\n") or text.endswith("\n\n")):
        return "skip"  # a directive body drops blank lines at its ends by design (C08)
    lines = ["before", ""] + code_doc(lang, text, style) + ["", "after"]
    ctx = CR.new_context(real=real, sphinx_env=_SphinxEnvStub() if style == "sphinx-fence" else None)
    ctx.renderer._render_tokens(ctx.md.parse("\n".join(lines) + "\n", ctx.renderer.md_env))
    lbs = list(ctx.document.findall(nodes.literal_block))
    if len(lbs) != 1:
        return ("code-block-count", "%d literal blocks for one code block (%s, %r)" % (len(lbs), style, lang))
    lb = lbs[0]
    for ln in list(lb.findall(nodes.inline)):
        if "ln" in ln["classes"]:
            ln.parent.remove(ln)  # line numbers are decoration, not code text
    got = lb.astext()
    want = text
    # the final newline of the block may or may not be kept (docutils convention); everything else is the code
    if got not in (want, want[:-1]):
        kind = "code-verbatim"
        if got.strip("\n") == want.strip("\n") and want.strip("\n") != want[:-1]:
            # pygments-highlighted code loses blank lines at its ends (docutils' Lexer uses pygments' default stripnl): classified separately
            kind = "code-verbatim:blank-lines-stripped-by-lexer"
        return (kind, "%s block, language %r: code %r became %r" % (style, lang, want, got))
    language = lb.get("language") if "language" in lb else None
    if lang and language != lang and lang not in lb["classes"]:
        return ("code-language", "%s block: language %r not carried over (language=%r classes=%r)" % (style, lang, language, lb["classes"]))
    paras = [p_.astext() for p_ in ctx.document.findall(nodes.paragraph)]
    if paras != ["before", "after"]:
        return ("code-swallows-neighbours", "paragraphs %r" % (paras,))
    return None


def make_code(eng):
    setup()
    c = CR.Choice(eng, n=8, width=15)
    state = {}
    eng.witness_fn = lambda m: dict(state)

    def body():
        c.reset()
        lang, text, style = c.pick(CODE_LANGS), c.pick(CODE_TEXTS), c.pick(CODE_STYLES)
        state.update(code=[lang, text, style])
        try:
            err = check_code(lang, text, style)
        except Exception as exc:  # noqa
            eng.fail("render-raises", "%s: %s" % (type(exc).__name__, exc))
        if err == "skip":
            raise core.PathAbort("combination not expressible")
        if err:
            if err[0].endswith("stripped-by-lexer"):
                eng.stats["obligations"] += 1
                eng.candidates.append(core.Candidate(err[0], eng.witness(), err[1]))
            else:
                eng.fail(err[0], err[1])
        eng.passed(3)
        eng.note("attr")
        return "ok"

    return body


# ------------------------------------------------------------ MyST extension syntax: every leaf once, in order, content identical

EXT_ON = ["dollarmath", "amsmath", "deflist", "fieldlist", "tasklist", "strikethrough", "colon_fence", "attrs_inline", "attrs_block", "smartquotes", "replacements"]
EXT_KINDS = ["math-inline", "math-double", "math-block", "math-block-label", "amsmath", "deflist", "fieldlist", "tasklist", "strike", "span-attrs", "quotes", "colon-fence", "block-attrs"]


def ext_md(c, kind, n):
    i1 = inline_md(c.pick(INL), 10 * n)
    if kind == "math-inline":
        return ["M%d %s $a_%d \\\\alpha$ tail" % (n, i1, n)]
    if kind == "math-double":
        return ["M%d $$b_%d$$ %s" % (n, n, i1)]
    if kind == "math-block":
        return ["$$", "c_%d = \\\\frac{1}{2}" % n, "  d", "$$"]
    if kind == "math-block-label":
        return ["$$", "e_%d" % n, "$$ (eq%d)" % n]
    if kind == "amsmath":
        return ["\\\\begin{align}", "f_%d &= 1 \\\\\\\\" % n, "g &= 2", "\\\\end{align}"]
    if kind == "deflist":
        return ["Term%d %s" % (n, i1), ": Def%d one" % n, "", "  second para", ": Def%d two" % n]
    if kind == "fieldlist":
        return [":name%d %s: body%d" % (n, i1, n), "  continued", ":empty%d:" % n]
    if kind == "tasklist":
        return ["- [ ] todo%d %s" % (n, i1), "- [x] done%d" % n]
    if kind == "strike":
        return ["S%d ~~gone %s~~ kept" % (n, i1)]
    if kind == "span-attrs":
        return ["A%d [span %s]{.cls #sid%d} after" % (n, i1, n)]
    if kind == "quotes":
        return ["Q%d \"quoted\" -- dash (c) ... %s" % (n, i1)]
    if kind == "colon-fence":
        return [":::{note}", "inside%d %s" % (n, i1), ":::"]
    if kind == "block-attrs":
        return ["{.bcls #bid%d}" % n, "Para%d with attrs %s" % (n, i1)]
    raise ValueError(kind)


def token_leaves_flat(tree):
    """Leaf sequence of the syntax tree incl. math tokens (containers ignored)."""
    out = []
    for ch in tree.children:
        t = ch.type
        if t == "text":
            if ch.content:
                out.append(("text", ch.content))
        elif t == "softbreak":
            out.append(("text", "\n"))
        elif t == "code_inline":
            out.append(("literal", ch.content))
        elif t in ("code_block", "fence"):
            out.append(("literal_block", ch.content.rstrip("\n")))
        elif t in ("html_inline", "html_block"):
            out.append(("raw", ch.content.rstrip("\n")))
        elif t in ("math_inline", "math_single"):
            out.append(("math", ch.content))
        elif t in ("math_inline_double", "math_block", "math_block_label", "amsmath"):
            out.append(("math_block", ch.content))
        elif t == "image":
            out.append(("image", (ch.attrGet("src"), _plain(ch))))
        elif t == "hr":
            out.append(("transition", ""))
        elif t == "colon_fence":
            out.append(("directive", ch.content.rstrip("\n")))
        elif t == "html_inline" or t == "s_open":
            continue
        else:
            out += token_leaves_flat(ch)
    return out


def node_leaves_flat(node):
    from docutils import nodes

    out = []
    for ch in node.children:
        if isinstance(ch, nodes.Text):
            if str(ch):
                out.append(("text", str(ch)))
        elif isinstance(ch, nodes.literal_block):
            out.append(("literal_block", ch.astext().rstrip("\n")))
        elif isinstance(ch, nodes.literal):
            out.append(("literal", ch.astext()))
        elif isinstance(ch, nodes.raw):
            out.append(("raw", ch.astext().rstrip("\n")))
        elif isinstance(ch, nodes.math_block):
            out.append(("math_block", ch.astext()))
        elif isinstance(ch, nodes.math):
            out.append(("math", ch.astext()))
        elif isinstance(ch, nodes.image):
            out.append(("image", (ch["uri"], ch.get("alt", ""))))
        elif isinstance(ch, nodes.transition):
            out.append(("transition", ""))
        elif isinstance(ch, nodes.system_message):
            continue
        elif isinstance(ch, nodes.note):
            out.append(("directive", "\n".join(p_.rawsource for p_ in ch.children)))
        else:
            out += node_leaves_flat(ch)
    return out


def compare_ext(text, real=False):
    from docutils import nodes
    from markdown_it.tree import SyntaxTreeNode

    ctx = CR.new_context(real=real, config={"enable_extensions": EXT_ON, "highlight_code_blocks": False})
    tl = token_leaves_flat(SyntaxTreeNode(ctx.md.parse(text, {})))
    ctx.renderer._render_tokens(ctx.md.parse(text, ctx.renderer.md_env))
    nl = node_leaves_flat(ctx.document)
    # strikethrough is raw <s>..</s> around the struck text in docutils; drop those two raw leaves
    nl = [x for x in nl if not (x[0] == "raw" and x[1] in ("<s>", "</s>"))]
    tl = [x for x in tl if not (x[0] == "raw" and x[1] in ("<s>", "</s>"))]
    # a directive body is compared by its own text in the other families: here only its presence
    tl = [(k, "" if k == "directive" else v) for k, v in tl]
    nl = [(k, "" if k == "directive" else v) for k, v in nl]
    if tl != nl:
        for i, (x, y) in enumerate(zip(tl, nl)):
            if x != y:
                return ("ext-leaf-differs", "leaf %d is %r in the syntax tree but %r in the doctree" % (i, x, y))
        return ("ext-leaf-count", "%d leaves in the syntax tree, %d in the doctree: %r vs %r" % (len(tl), len(nl), tl[-2:], nl[-2:]))
    # containers of the extension constructs
    counts = {"dl": text.count("\n: ") and 1, "field": text.count(":name"), "empty-field": text.count(":empty")}
    nfields = len(list(ctx.document.findall(nodes.field)))
    if nfields != counts["field"] + counts["empty-field"]:
        return ("ext-field-count", "%d field nodes for %d fields" % (nfields, counts["field"] + counts["empty-field"]))
    for f in ctx.document.findall(nodes.field):
        if len(f) != 2 or not isinstance(f[0], nodes.field_name) or not isinstance(f[1], nodes.field_body):
            return ("ext-field-shape", "field children %r" % [c_.tagname for c_ in f.children])
    nterms = len(list(ctx.document.findall(nodes.term)))
    want_terms = text.count("Term")
    if nterms != want_terms:
        return ("ext-term-count", "%d term nodes for %d terms" % (nterms, want_terms))
    for it in ctx.document.findall(nodes.definition_list_item):
        kinds = [c_.tagname for c_ in it.children]
        if not kinds or kinds[0] != "term" or "definition" not in kinds or kinds != sorted(kinds, key=lambda k_: k_ != "term"):
            return ("ext-deflist-shape", "definition_list_item children %r" % kinds)
    ndefs = len(list(ctx.document.findall(nodes.definition)))
    if ndefs != text.count("\n: "):
        return ("ext-definition-count", "%d definitions for %d ': ' lines" % (ndefs, text.count("\n: ")))
    for mb in ctx.document.findall(nodes.math_block):
        if "eq" in "".join(mb.get("names", [])) and not mb.get("ids"):
            return ("ext-math-label", "labelled math block has no id")
    nlabel = sum(1 for mb in ctx.document.findall(nodes.math_block) if mb.get("names"))
    if nlabel != text.count("$$ (eq"):
        return ("ext-math-label", "%d labelled math blocks for %d labels" % (nlabel, text.count("$$ (eq")))
    for sp in ctx.document.findall(nodes.inline):
        if "cls" in sp["classes"] and not any(i_.startswith("sid") for i_ in sp["ids"]):
            return ("ext-span-attrs", "span lost its id: %r" % (sp.attributes,))
    nspan = sum(1 for sp in ctx.document.findall(nodes.inline) if "cls" in sp["classes"])
    if nspan != text.count("]{.cls"):
        return ("ext-span-attrs", "%d spans with class for %d in the source" % (nspan, text.count("]{.cls")))
    nb = sum(1 for p_ in ctx.document.findall(nodes.paragraph) if "bcls" in p_["classes"] and any(i_.startswith("bid") for i_ in p_["ids"]))
    if nb != text.count("{.bcls"):
        return ("ext-block-attrs", "%d paragraphs with block attributes for %d in the source" % (nb, text.count("{.bcls")))
    ntask = sum(1 for li in ctx.document.findall(nodes.list_item) if "task-list-item" in li["classes"])
    if ntask != text.count("- [ ]") + text.count("- [x]"):
        return ("ext-tasklist", "%d task items for %d in the source" % (ntask, text.count("- [ ]") + text.count("- [x]")))
    return None


def make_ext(eng, nblocks):
    setup()
    c = CR.Choice(eng, n=24, width=15)
    state = {}
    eng.witness_fn = lambda m: dict(state)

    def body():
        c.reset()
        lines = []
        for n in range(nblocks):
            if lines:
                lines.append("")
            lines += ext_md(c, c.pick(EXT_KINDS), n)
        text = "\n".join(lines) + "\n"
        state.update(ext=text)
        try:
            err = compare_ext(text)
        except Exception as exc:  # noqa
            import traceback

            tb = traceback.extract_tb(exc.__traceback__)
            eng.fail("render-raises", "%s: %s at %s" % (type(exc).__name__, exc, tb[-1].name if tb else "?"))
        if err:
            eng.fail(err[0], err[1])
        eng.passed(6)
        eng.note("nested")
        return "ok"

    return body


def make_struct(eng, nblocks, kinds):
    setup()
    c = CR.Choice(eng, n=48, width=15)
    state = {}
    eng.witness_fn = lambda m: dict(state)

    def body():
        c.reset()
        lines = []
        ks = []
        for n in range(nblocks):
            k = c.pick(kinds)
            ks.append(k)
            if lines:
                lines.append("")
            lines += block_md(c, k, n)
        mode = c.pick(["commonmark", "myst"])
        text = "\n".join(lines) + "\n"
        state.update(text=text, mode=mode)
        try:
            err = compare_doc(text, mode)
        except Exception as exc:  # noqa
            import traceback

            tb = traceback.extract_tb(exc.__traceback__)
            eng.fail("render-raises", "%s: %s at %s" % (type(exc).__name__, exc, tb[-1].name if tb else "?"))
        if err:
            eng.fail(err[0], err[1])
        eng.passed(4)
        if any(k in ("list", "quote", "quote-list", "table") for k in ks):
            eng.note("nested")
        return "ok"

    return body


def families(tier, seed):
    q = tier == "quick"
    F = []
    for n in ([3, 4] if q else [4, 5, 6]):
        F.append(Family("link/N%d" % n, make_link, "all link destinations of %d chars over '#:/.ahipnv&\\'' x all_links_external" % n, args=dict(n=n, alphabet="#:/.ahipnv&'"), nontrivial="attr", max_forks=200000,
                        required=(n <= (4 if q else 5))))
    F.append(Family("long-line", make_long_line, "docutils front end with line_length_limit in (10, 20, 200): a first / middle / last line of limit-1, limit, limit+1 characters; a line no longer than the limit is rendered",
                    nontrivial="attr", max_forks=1000))
    F.append(Family("link-url-schemes", make_scheme_links, "links with explicit text (emphasis, code), autolinks and text-less links whose scheme has a url_schemes template (with / without a title template, string or dict form), paths %r: "
                    "explicit text kept leaf by leaf, title template only for implicit text, refuri = filled template" % (SCHEME_PATHS,), nontrivial="attr", max_forks=1000))
    F.append(Family("link-sphinx/N3", make_link_sphinx, "Sphinx renderer: all link destinations of 3 chars over '#a./' (non-URL): the pending_xref carries the destination unchanged, '#' links stay local", args=dict(n=3, alphabet="#a./"),
                    nontrivial="attr", max_forks=100000))
    F.append(Family("image", make_image, "image src 3 symbolic chars, alt 2 symbolic chars", args=dict(n=3), nontrivial="attr", max_forks=100000))
    F.append(Family("olist-start", make_olist, "ordered list with start = any integer (symbolic), present/absent, suffix . or )", nontrivial="attr", max_forks=100000))
    F.append(Family("fence-lang", make_fence, "fence info string of 3 symbolic chars over 'py-+3', space and tab", args=dict(n=3), nontrivial="attr", max_forks=100000))
    for nc, nr, nk in ([(1, 1, 3), (2, 1, 3), (3, 1, 2)] if q else [(1, 2, 3), (2, 1, 3), (2, 2, 3), (3, 1, 2), (3, 2, 2), (3, 1, 3)]):
        F.append(Family("table/C%dR%dK%d" % (nc, nr, nk), make_table, "pipe table: %d column(s) x alignment none/left/center/right, header + %d body row(s), every cell from %r" % (nc, nr, [x[0] for x in CELLS[:nk]]),
                        args=dict(ncols=nc, nrows=nr, ncellkinds=nk), nontrivial="attr", max_forks=400000, required=(nc * (1 + nr) <= 6)))
    F.append(Family("code", make_code, "code blocks: language from %r x %d code texts (tabs, trailing spaces, form feed, markup-like text, blank lines at either end, doctest) x styles %r: literal text verbatim, language kept" % (
        CODE_LANGS, len(CODE_TEXTS), CODE_STYLES), nontrivial="attr", max_forks=100000))
    for nb in ([1, 2] if q else [2, 3]):
        F.append(Family("ext/B%d" % nb, make_ext, "%d block(s) of MyST extension syntax from %r, each with an inline fragment from %r: every text / code / math / raw / image leaf once, in order, content identical; fields, terms, definitions, labels, span and block attributes, task items counted" % (
            nb, EXT_KINDS, INL), args=dict(nblocks=nb), nontrivial="nested", max_forks=400000, required=(nb <= 2)))
    F.append(Family("struct/B1", make_struct, "one block from %r with two inline fragments from %r, CommonMark and MyST mode" % (BLK, INL), args=dict(nblocks=1, kinds=BLK), nontrivial="nested", max_forks=400000))
    F.append(Family("struct/headings", make_struct, "3-4 headings with levels 1/3/4 each followed by a paragraph (source order of leaves under level skips)", args=dict(nblocks=3 if q else 4, kinds=["h1", "h3", "h4"]),
                    nontrivial=None, max_forks=400000))
    F.append(Family("struct/breaks", make_struct, "three blocks from thematic break / indented code / fence (runs of adjacent thematic breaks: each one reaches the doctree)", args=dict(nblocks=3, kinds=["hr", "code", "fence"]),
                    nontrivial=None, max_forks=400000))
    F.append(Family("struct/B2", make_struct, "two blocks (inline fragments from a reduced set)", args=dict(nblocks=2, kinds=["para", "list", "quote", "table", "heading", "hr", "code"]), nontrivial="nested",
                    max_forks=800000, required=False))
    return F


def replay(label, witness):
    from docutils import nodes

    try:
        if "text" in witness:
            err = compare_doc(witness["text"], witness["mode"], real=True)
            return ("C02/%s" % err[0], "document %r: %s" % (witness["text"], err[1])) if err else None
        if "long_line" in witness:
            err = check_long_line(*witness["long_line"], real=True)
            return ("C02/%s" % err[0], err[1]) if err else None
        if "scheme_link" in witness:
            err = check_scheme_links(*witness["scheme_link"], real=True)
            return ("C02/%s" % err[0], err[1]) if err else None
        if "sphinx_href" in witness:
            err = check_sphinx_link(sphinx_context(real=True), witness["sphinx_href"])
            return ("C02/%s" % err[0], err[1]) if err else None
        if "ext" in witness:
            err = compare_ext(witness["ext"], real=True)
            return ("C02/%s" % err[0], "document %r: %s" % (witness["ext"], err[1])) if err else None
        if "code" in witness:
            lang, text, style = witness["code"]
            err = check_code(lang, text, style, real=True)
            return ("C02/%s" % err[0], err[1]) if err and err != "skip" else None
        if "table" in witness:
            err = check_table(witness["table"], witness["spec"], real=True)
            return ("C02/%s" % err[0], "table %r: %s" % (witness["table"], err[1])) if err else None
        if "href" in witness:
            href, e = witness["href"], witness["all_links_external"]
            ctx = CR.new_context(real=True, config={"all_links_external": e})
            link = [Token("link_open", "a", 1, attrs={"href": href}), Token("text", "", 0, content="linktext"), Token("link_close", "a", -1)]
            ctx.renderer._render_tokens(CR.paragraph(0, "linktext", children=link))
            refs = list(ctx.document.findall(nodes.reference))
            ntext = sum(1 for t in ctx.document.findall(nodes.Text) if str(t) == "linktext" and not isinstance(t.parent.parent, nodes.system_message))
            if ntext != 1:
                return ("C02/link-text-count", "href %r: the link text occurs %d times in the document" % (href, ntext))
            if href.startswith("inv:") and not e:
                return None if len(refs) == 0 else ("C02/inv-missing", "href %r" % href)
            if len(refs) != 1 or refs[0].astext() != "linktext":
                return ("C02/link-count-or-text", "href %r -> %d references, text %r" % (href, len(refs), [r.astext() for r in refs]))
            dest = refs[0].get("refuri") if "refuri" in refs[0] else refs[0].get("refname")
            if dest != href:
                return ("C02/link-destination-changed", "href %r rendered with destination %r" % (href, dest))
            return None
        if "src" in witness:
            ctx = CR.new_context(real=True)
            img = Token("image", "img", 0, attrs={"src": witness["src"], "alt": ""}, children=[Token("text", "", 0, content=witness["alt"])], content=witness["alt"])
            ctx.renderer._render_tokens(CR.paragraph(0, "x", children=[img]))
            im = list(ctx.document.findall(nodes.image))
            if len(im) != 1 or im[0]["uri"] != witness["src"] or im[0]["alt"] != witness["alt"]:
                return ("C02/image", "src %r alt %r -> %r" % (witness["src"], witness["alt"], [(i["uri"], i.get("alt")) for i in im]))
            return None
        if "start" in witness:
            ctx = CR.new_context(real=True)
            sfx = ".)"[witness["suffix"]]
            o = Token("ordered_list_open", "ol", 1, map=[0, 2], markup=sfx, block=True)
            if witness["has_start"]:
                o.attrs = {"start": witness["start"]}
            toks = [o, Token("list_item_open", "li", 1, map=[0, 1], markup=sfx, block=True)] + CR.paragraph(0, "item") + [Token("list_item_close", "li", -1, block=True), Token("ordered_list_close", "ol", -1, markup=sfx, block=True)]
            ctx.renderer._render_tokens(toks)
            ls = list(ctx.document.findall(nodes.enumerated_list))
            if witness["has_start"] and (len(ls) != 1 or ls[0].get("start") != witness["start"]):
                return ("C02/olist-start", "ordered list start %r rendered as %r" % (witness["start"], ls[0].get("start") if ls else None))
            return None
        if "lang" in witness:
            ctx = CR.new_context(real=True, config={"highlight_code_blocks": False})
            ctx.renderer._render_tokens(CR.fence(0, witness["lang"], "code <&> line\n  indented\n"))
            bl = list(ctx.document.findall(nodes.literal_block))
            words = witness["lang"].split()
            if len(bl) != 1 or bl[0].astext().rstrip("\n") != "code <&> line\n  indented":
                return ("C02/code-text", "code text %r" % [b.astext() for b in bl])
            if words and not words[0].startswith("{") and bl[0].get("language") != words[0] and words[0] not in bl[0]["classes"]:
                return ("C02/code-language", "info %r -> language %r" % (witness["lang"], bl[0].get("language")))
            return None
    except Exception as e:  # noqa
        return ("C02/exception:%s" % type(e).__name__, "%r raised %r" % (witness, e))
    return None


def selftest(seed):
    from symx import sre

    problems = []
    cmp, bad = sre.selftest([(r"^([a-zA-Z][a-zA-Z0-9+.-]*):", 0)], seed=seed, max_len=3, extra_alpha="#h:/.a1", n_random=200)
    for b in bad[:3]:
        problems.append("regex shim mismatch: %r" % (b,))
    return problems
