"""C03 — every produced document is a well-formed docutils tree.

Encoded: the block render methods of base.py, html_to_nodes, mocking (directive bodies), ResolveAnchorIds,
CollectFootnotes/SortFootnotes, the docutils front end — instrumented; markdown-it and docutils native.
Checked both directly after Parser.parse (no transforms) and after the full transform pipeline.
"""
from __future__ import annotations

from symx import core
from symx.driver import Family
from harness import common_render as CR

ID = "C03"
TECHNIQUE = "solver-enumerated grammar documents through the instrumented MyST front end (symx), with a docutils-tree well-formedness checker applied after parsing and after the transform pipeline"
LEVEL_TEXT = ("For every document of the bounded block grammar (paragraphs, headings of any level order, thematic breaks at top level and inside quotes / list items / directive bodies, tables with "
              "ragged rows, targets incl. duplicates, '#'-links to existing and missing targets, footnote references/definitions, HTML blocks, admonition directives, nesting depth <= 3) the "
              "doctree is checked after parsing and after the transforms (also for 18 docutils directives run through the mock state machine, {line-block} bodies with every indentation profile, and footnote labels / targets / headings sharing one name): single parent, sections only under document/section and starting with a title, transitions only under document/section, "
              "unique ids, every refid/backref resolves unless a target-not-found warning was issued, table rows as wide as the column count, footnotes starting with their label.")
LEVEL_NOTE = ("Degenerate: documents are concrete once chosen; the engine enumerates the grammar exhaustively by case split and executes the instrumented MyST code. markdown-it's tokenizer and "
              "docutils' transforms run natively. docutils' own error messages (e.g. 'Document may not end with a transition') are not violations.")
BUDGET_S = {"quick": 200, "thorough": 1200}
EXPLANATION = "Grammar documents -> instrumented Parser.parse (+ transforms) -> well-formedness checker."
ASSUMPTIONS = ["markdown-it pads/truncates table rows to the header width (checked on the output)"]
OUTSIDE = ["documents outside the grammar", "Sphinx-specific nodes"]
STUBS = []
NONTRIVIAL_RULE = "paths whose document nests a construct inside a quote, list item or directive"

LEAF = ["para", "hr", "h1", "h2", "h3", "target-a", "target-a2", "link-a", "link-x", "fnref", "fndef", "html", "table", "table-ragged", "code"]
CONT = ["quote", "list", "note"]


def setup():
    CR.setup_pipeline()


WIDE = [1, 3, 33, 50, 51, 99, 100, 101, 128, 250]  # column counts around 100 // ncols reaching 1 and 0


def _wide_table(k):
    return ["|" + "|".join(" h%d " % i for i in range(k)) + "|", "|" + "|".join(["---", ":-:", "--:"][i % 3] for i in range(k)) + "|", "|" + "|".join(" %d " % i for i in range(k)) + "|", "| short |"]


def leaf_lines(kind, n):
    return {
        "para": ["P%d text" % n],
        "hr": ["---"],
        "h1": ["# H%d" % n],
        "h2": ["## H%d" % n],
        "h3": ["### H%d" % n],
        "target-a": ["(a)=", "T%d after target" % n],
        "target-a2": ["{#a}", "T%d with id" % n],
        "link-a": ["L%d [](#a) [t](#a)" % n],
        "link-x": ["L%d [](#missing) [t](#missing)" % n],
        "fnref": ["F%d ref[^n]" % n],
        "fndef": ["[^n]: D%d note" % n],
        "html": ["<div>", "X%d" % n, "</div>"],
        "table": ["| a | b |", "|---|---|", "| 1 | 2 |"],
        "table-ragged": ["| a | b |", "|---|---|", "| 1 |", "| 1 | 2 | 3 |"],
        "code": ["```", "C%d" % n, "```"],
        **{"table-c%d" % k: _wide_table(k) for k in WIDE},
        "inline-html": ["I%d <b>bold</b> and <i>it</i>" % n],
        "target-a-quote-fn": ["(a)=", "> [^n]: D%d quoted note" % n],  # a target propagated onto a block quote that holds only a footnote definition
        "h2-cjk": ["## \u6982\u8981"],  # a title whose docutils id is auto-generated (make_id gives nothing)
        "link-cjk": ["L%d [](#\u6982\u8981) and [t](#\u6982\u8981-1)" % n],
        "html-img-mixed": ['<img src="a%d.png" name="a" alt="A">' % n, "<p>mixed %d</p>" % n],  # an understood element followed by other HTML: the block stays raw, nothing is registered
        "target-a-titled": ["(a)=", "## Titled %d" % n],
        "link-a-twice": ["L%d [](#a) and [](#a) and [](#a)" % n],
        "target-n": ["(n)=", "T%d after target n" % n],
        "h1-n": ["# n"],
        "fnref-a": ["F%d ref[^a]" % n],
        # a numeric footnote label keeps its number as label text: the same name can also belong to a target or a heading
        "fnref-2": ["F%d ref[^2]" % n],
        "fndef-2": ["[^2]: D%d note" % n],
        "target-2": ["(2)=", "T%d after target 2" % n],
        "h1-2": ["# 2"],
        "fndef-a": ["[^a]: D%d note" % n],
        "d-figure": ["```{figure} img.png", ":name: fig%d" % n, "", "Caption %d" % n, "", "Legend para", "", "- legend list", "```"],
        "d-figure-bad": ["```{figure} img.png", "", "- not a caption", "```"],
        "d-list-table": ["```{list-table} T%d" % n, ":header-rows: 1", "", "* - a", "  - b", "* - 1", "  - [](#a)", "```"],
        "d-list-table-ragged": ["```{list-table}", "", "* - a", "  - b", "* - 1", "```"],
        "d-table": ["```{table} Cap%d" % n, ":name: tab%d" % n, "", "| a | b |", "|---|---|", "| 1 | 2 |", "```"],
        "d-csv": ["```{csv-table} C%d" % n, ":header: x, y", "", "1, 2", "3", "```"],
        "d-topic": ["```{topic} Topic %d" % n, "", "# inner heading", "", "para", "```"],
        "d-sidebar": ["```{sidebar} Side %d" % n, ":subtitle: sub", "", "---", "", "para", "```"],
        "d-epigraph": ["```{epigraph}", "Quote %d" % n, "", "-- attribution", "```"],
        "d-parsed-literal": ["```{parsed-literal}", "lit *em* %d" % n, "  more", "```"],
        "d-container": ["```{container} cls", "", "(a)=", "para %d" % n, "```"],
        "d-rubric": ["```{rubric} R%d" % n, ":name: n", "```"],
        "d-math": ["```{math}", ":label: eq%d" % n, "", "a = %d" % n, "```"],
        "d-code": ["```{code-block} python", ":name: n", ":caption: Cap", "", "x = %d" % n, "```"],
        "d-admon-title": ["```{admonition} Title [^n] *e*", ":class: tip", "", "body %d" % n, "```"],
        "d-evalrst": ["```{eval-rst}", "Sec%d" % n, "=====", "", "para [#]_", "", ".. [#] auto note", "```"],
        "d-unknown": ["```{nosuchdirective} arg", "body", "```"],
        "d-compound": ["```{compound}", "", "para", "", "    code", "```"],
    }[kind]


DIRS = ["d-figure", "d-figure-bad", "d-list-table", "d-list-table-ragged", "d-table", "d-csv", "d-topic", "d-sidebar", "d-epigraph", "d-parsed-literal", "d-container", "d-rubric", "d-math", "d-code",
        "d-admon-title", "d-evalrst", "d-unknown", "d-compound"]
NAMES = ["fnref", "fndef", "target-n", "h1-n", "fnref-a", "fndef-a", "link-a", "target-a", "target-a-titled", "link-a-twice", "html-img-mixed", "h2-cjk", "link-cjk", "target-a-quote-fn"]


def gen_blocks(c, depth, nblocks, counter, leafs=None):
    lines = []
    nested = False
    for _ in range(nblocks):
        if lines:
            lines.append("")
        kinds = list(leafs or LEAF) + (CONT if depth > 0 else [])
        kind = c.pick(kinds)
        counter[0] += 1
        n = counter[0]
        if kind not in CONT:
            lines += leaf_lines(kind, n)
        else:
            inner, _ = gen_blocks(c, depth - 1, 1 + c.choose(2), counter, leafs)
            nested = True
            if kind == "quote":
                lines += ["> " + l if l else ">" for l in inner]
            elif kind == "list":
                lines += [("- " if i == 0 else "  ") + l if l else "" for i, l in enumerate(inner)]
            else:
                fence = "`" * (3 + depth)
                lines += [fence + "{note}"] + inner + [fence]
    return lines, nested


def wf_check(doc, stage):
    from docutils import nodes

    seen = {}
    for n in doc.findall():
        if id(n) in seen:
            return ("node-twice", "%s: a %s node occurs twice in the tree" % (stage, n.tagname))
        seen[id(n)] = n
    for n in doc.findall():
        if isinstance(n, nodes.Text):
            continue
        for ch in n.children:
            if ch.parent is not n:
                return ("wrong-parent-pointer", "%s: a %s child of %s has parent %s" % (stage, ch.tagname, n.tagname, getattr(ch.parent, "tagname", None)))
        if isinstance(n, nodes.section):
            if not isinstance(n.parent, (nodes.document, nodes.section)):
                return ("section-in-container", "%s: section under %s" % (stage, n.parent.tagname))
            if not len(n) or not isinstance(n[0], nodes.title):
                return ("section-without-leading-title", "%s: section starts with %s" % (stage, n[0].tagname if len(n) else "nothing"))
        if isinstance(n, nodes.transition) and not isinstance(n.parent, (nodes.document, nodes.section)):
            return ("transition-in-container", "%s: transition under %s" % (stage, n.parent.tagname))
        if isinstance(n, nodes.footnote) and stage == "after-transforms":
            if not len(n) or not isinstance(n[0], nodes.label):
                return ("footnote-without-label", "%s: footnote starts with %s" % (stage, n[0].tagname if len(n) else "nothing"))
        if isinstance(n, nodes.tgroup):
            cols = n.get("cols")
            ncolspec = len([c_ for c_ in n.children if isinstance(c_, nodes.colspec)])
            for row in n.findall(nodes.row):
                if len(row) != cols or ncolspec != cols:
                    return ("table-row-width", "%s: row with %d cells in a table of %s columns (%d colspecs)" % (stage, len(row), cols, ncolspec))
    ids = {}
    for n in doc.findall():
        if isinstance(n, nodes.Text):
            continue
        for i in n.get("ids", []):
            if i in ids and ids[i] is not n:
                return ("duplicate-id", "%s: id %r on two nodes (%s, %s)" % (stage, i, ids[i].tagname, n.tagname))
            ids[i] = n
    if stage == "after-transforms":
        for n in doc.findall():
            if isinstance(n, nodes.Text):
                continue
            rid = n.get("refid") if isinstance(n, (nodes.reference, nodes.footnote_reference, nodes.target)) else None
            if rid is not None and rid not in ids:
                # excused only by a warning attached to this very reference, or by a docutils message that names this target
                warned = any(isinstance(ch, nodes.system_message) for ch in n.children) or (bool(rid) and any(
                    isinstance(m, nodes.system_message) and ("not found" in m.astext() or "Unknown target" in m.astext() or "Duplicate" in m.astext()) and rid.lower() in m.astext().lower()
                    for m in doc.findall(nodes.system_message)))
                if not warned:
                    return ("dangling-refid", "%s: %s refid %r does not exist and no warning was issued" % (stage, n.tagname, rid))
            if isinstance(n, nodes.footnote):
                for b in n.get("backrefs", []):
                    if b not in ids:
                        return ("dangling-backref", "%s: footnote backref %r does not exist" % (stage, b))
    return None


def run_stages(text, real=False, raw_enabled=True):
    """Returns list of (stage, doc) or raises."""
    from docutils.utils import new_document
    from docutils.frontend import get_default_settings
    import io

    if real:
        from myst_parser.parsers.docutils_ import Parser
    else:
        Parser = CR.setup_pipeline()["docutils_"].Parser
    settings = get_default_settings(Parser)
    settings.report_level = 5
    settings.halt_level = 6
    settings.warning_stream = io.StringIO()
    settings.myst_heading_anchors = 2
    settings.myst_enable_extensions = ["attrs_block", "html_image", "html_admonition"]
    settings.raw_enabled = raw_enabled
    d1 = new_document("src.md", settings)
    Parser().parse(text, d1)
    d2, _ = CR.publish(text, {"myst_heading_anchors": 2, "myst_enable_extensions": ["attrs_block", "html_image", "html_admonition"], "report_level": 5, "raw_enabled": raw_enabled}, real=real)
    return [("after-parse", d1), ("after-transforms", d2)]


def make(eng, depth, nblocks, raw_enabled=True, leaf=None):
    setup()
    LEAFS = leaf
    c = CR.Choice(eng, n=40, width=31)
    state = {}
    eng.witness_fn = lambda m: {"text": state.get("text"), "raw_enabled": state.get("raw_enabled", True)}

    def body():
        c.reset()
        lines, nested = gen_blocks(c, depth, nblocks, [0], LEAFS)
        text = "\n".join(lines) + "\n"
        state["text"] = text
        state["raw_enabled"] = raw_enabled
        try:
            stages = run_stages(text, raw_enabled=raw_enabled)
        except Exception as exc:  # noqa
            import traceback

            tb = traceback.extract_tb(exc.__traceback__)
            eng.fail("pipeline-raises", "%s: %s at %s" % (type(exc).__name__, exc, "; ".join("%s:%d" % (f.name, f.lineno) for f in tb[-2:])))
        for stage, doc in stages:
            err = wf_check(doc, stage)
            if err:
                eng.fail(err[0], err[1])
        eng.passed(16)
        if nested:
            eng.note("nested")
        return "ok"

    return body


def make_lineblock(eng, nlines, maxindent, where):
    """{line-block} bodies with every indentation profile (MockState.line_block / nest_line_block_lines)."""
    setup()
    c = CR.Choice(eng, n=16, width=15)
    state = {}
    eng.witness_fn = lambda m: {"text": state.get("text"), "raw_enabled": True}

    def body():
        c.reset()
        ind = [c.choose(maxindent + 1) for _ in range(nlines)]
        blank = c.choose(nlines + 1)  # position of an optional blank line (== nlines: none)
        inner = []
        for i, k in enumerate(ind):
            if i == blank and i > 0:
                inner.append("")
            inner.append(" " * (2 * k) + "line %d *e*" % i)
        lines = ["```{line-block}"] + inner + ["```"]
        if where == "quote":
            lines = ["> " + l if l else ">" for l in lines]
        elif where == "list":
            lines = [("- " if i == 0 else "  ") + l if l else "" for i, l in enumerate(lines)]
        text = "\n".join(lines) + "\n"
        state["text"] = text
        try:
            stages = run_stages(text)
        except Exception as exc:  # noqa
            import traceback

            tb = traceback.extract_tb(exc.__traceback__)
            eng.fail("pipeline-raises", "%s: %s at %s" % (type(exc).__name__, exc, "; ".join("%s:%d" % (f.name, f.lineno) for f in tb[-2:])))
        from docutils import nodes

        for stage, doc in stages:
            err = wf_check(doc, stage)
            if err:
                eng.fail(err[0], err[1])
            got = [l.astext() for l in doc.findall(nodes.line) if l.astext()]
            if got != ["line %d e" % i for i in range(nlines)]:
                eng.fail("line-block-lines", "%s: lines %r" % (stage, got))
        eng.passed(18)
        if len(set(ind)) > 1:
            eng.note("nested")
        return "ok"

    return body


def families(tier, seed):
    q = tier == "quick"
    F = []
    F.append(Family("flat/B2", make, "all pairs of top-level blocks from %r" % (LEAF,), args=dict(depth=0, nblocks=2), nontrivial=None, max_forks=400000))
    F.append(Family("nested/D1-B1", make, "one block, containers %r holding 1-2 leaf blocks" % (CONT,), args=dict(depth=1, nblocks=1), nontrivial="nested", max_forks=400000))
    F.append(Family("tables/wide", make, "one pipe table of %r columns (header, aligned delimiter row, full row, short row) at top level or inside quote / list item / note" % (WIDE,),
                    args=dict(depth=1, nblocks=1, leaf=["table-c%d" % k for k in WIDE]), nontrivial="nested", max_forks=400000))
    NUM = ["fnref-2", "fndef-2", "target-2", "h1-2", "fndef", "fnref-a"]
    F.append(Family("names-numeric/B3", make, "all triples of blocks from %r (a numeric footnote label that is also the name of a target / heading)" % (NUM,), args=dict(depth=0, nblocks=3, leaf=NUM), nontrivial=None, max_forks=400000))
    F.append(Family("names/B3", make, "all triples of blocks from %r (footnote labels, explicit targets and headings sharing a name)" % (NAMES,), args=dict(depth=0, nblocks=3, leaf=NAMES), nontrivial=None, max_forks=400000))
    F.append(Family("directives/D1", make, "one block: a directive from %r at top level or inside quote / list item / note" % (DIRS,), args=dict(depth=1, nblocks=1, leaf=DIRS), nontrivial="nested", max_forks=400000))
    F.append(Family("directives+names/B2", make, "pairs of a directive and a name-bearing block", args=dict(depth=0, nblocks=2, leaf=DIRS + ["target-n", "fndef", "fnref", "link-a", "h1-n"]), nontrivial=None, max_forks=400000,
                    required=False))
    for where in ("top", "quote") if q else ("top", "quote", "list"):
        F.append(Family("line-block/%s" % where, make_lineblock, "{line-block} of %d lines, each indented 0-2 levels, optional blank line, %s" % (4 if q else 5, where), args=dict(nlines=4 if q else 5, maxindent=2, where=where),
                        nontrivial="nested", max_forks=400000))
    F.append(Family("raw-disabled/B3", make, "triples of blocks from ['html', 'para', 'hr', 'h1'] with raw_enabled=False (raw nodes are replaced by warnings)",
                    args=dict(depth=0, nblocks=3, raw_enabled=False, leaf=["html", "para", "inline-html", "h1"]), nontrivial=None, max_forks=400000))
    F.append(Family("raw-disabled/D1", make, "containers with html blocks, raw_enabled=False", args=dict(depth=1, nblocks=1, raw_enabled=False, leaf=["html", "para", "inline-html"]), nontrivial="nested", max_forks=400000))
    if True:
        F.append(Family("flat/B3", make, "all triples of top-level blocks", args=dict(depth=0, nblocks=3), nontrivial=None, max_forks=400000))
    if not q:
        F.append(Family("nested/D1-B2", make, "two blocks, depth 1", args=dict(depth=1, nblocks=2), nontrivial="nested", max_forks=800000, required=False))
        F.append(Family("nested/D2-B1", make, "one block, depth 2", args=dict(depth=2, nblocks=1), nontrivial="nested", max_forks=800000, required=False))
    return F


def replay(label, witness):
    text = witness["text"]
    try:
        stages = run_stages(text, real=True, raw_enabled=witness.get("raw_enabled", True))
    except Exception as e:  # noqa
        import traceback

        tb = traceback.extract_tb(e.__traceback__)
        where = tb[-1].name if tb else "?"
        return ("C03/exception:%s@%s" % (type(e).__name__, where), "document %r raised %s: %s" % (text, type(e).__name__, e))
    for stage, doc in stages:
        err = wf_check(doc, stage)
        if err:
            # violations caused by rST embedded through {eval-rst} (separate docutils document whose registries are dropped) are a distinct finding
            ctx = ":eval-rst" if "{eval-rst}" in text and err[0] in ("footnote-without-label", "section-in-container", "duplicate-id") else ""
            return ("C03/%s%s" % (err[0], ctx), "document %r: %s" % (text, err[1]))
    return None


def selftest(seed):
    return []
