"""C11 — footnotes are numbered, linked and collected consistently.

Encoded: render_footnote_ref, render_footnote_reference (base.py), SortFootnotes, CollectFootnotes,
UnreferencedFootnotesDetector (transforms.py), the docutils front end (docutils_.py) — instrumented; docutils' own
Footnotes transform and markdown-it's footnote plugin run natively on the concrete text.
"""
from __future__ import annotations

from symx import core
from symx.driver import Family
from harness import common_render as CR

ID = "C11"
TECHNIQUE = "solver-enumerated arrangements of footnote references/definitions through the instrumented MyST front end and transforms (symx), compared with a numbering/linking/collection oracle"
LEVEL_TEXT = ("For every arrangement of up to K footnote references and definitions (labels a, b, 1, 2, 10 and the non-ASCII digit labels U+00B2, U+0663; duplicates, missing and unreferenced definitions; definitions before/after their "
              "references and inside block quotes) under both footnote_sort and footnote_transition settings, the doctree after the full transform pipeline is compared with the oracle: "
              "reference -> definition link and equal number, back-references, distinct labels, numeric labels kept, auto labels numbered by first reference (sorting on), definitions "
              "moved to the end in ascending order behind exactly one transition when configured (sorting on) or left in place (sorting off), one warning per duplicate / unreferenced "
              "definition, definition text preserved.")
LEVEL_NOTE = ("Degenerate: arrangements are concrete once the solver has picked them (labels are dict keys inside docutils). The engine enumerates the bounded arrangement space exhaustively and "
              "runs the instrumented MyST code; docutils' Footnotes transform is native.")
BUDGET_S = {"quick": 200, "thorough": 1200}
EXPLANATION = "Arrangement grammar -> Markdown text -> instrumented pipeline -> doctree vs oracle."
ASSUMPTIONS = ["with footnote_sort disabled auto-numbered footnotes are numbered in definition order (docutils' rule; the option's documentation ties reference-order to sorting)",
               "references to labels without any definition are reported by docutils itself and are not judged"]
OUTSIDE = ["arrangements longer than K", "footnotes inside directives/lists", "Sphinx builders' rendering of footnotes"]
STUBS = []
NONTRIVIAL_RULE = "paths with at least one referenced definition and either a second label, a duplicate or an unreferenced definition"

LABELS = ["a", "b", "1", "2", "10"]


def setup():
    CR.setup_pipeline()


def gen(c, k, labels, nkinds=3, with_fm=False, attrs=False, kindset=None, tail=()):
    items = []
    kept_flags, defined = [], set()
    for i in range(k):
        kind = kindset[c.choose(len(kindset))] if kindset else c.choose(nkinds)  # (5: a reference inside the body of a {note} directive)  # 0 ref, 1 def, 2 def in quote, 3 def written inside the body of the preceding definition, 4 a heading whose title equals a (non-numeric) label
        lab = c.pick(labels)
        # nesting only under a definition that is itself kept (the body of a dropped duplicate is dropped with it: outside the claim)
        if kind == 3 and not (items and items[-1][0] in (1, 3) and kept_flags[-1]):
            kind = 1
        if kind == 4 and lab.isdigit():
            kind = 0
        kept_flags.append(kind in (1, 2, 3) and lab not in defined)
        if kind in (1, 2, 3):
            defined.add(lab)
        items.append((kind, lab))
    for kind, lab in tail:  # items every document of the family ends with (definitions)
        kept_flags.append(kind in (1, 2, 3) and lab not in defined)
        if kind in (1, 2, 3):
            defined.add(lab)
        items.append((kind, lab))
    sort = bool(c.choose(2))
    trans = bool(c.choose(2))
    fm = bool(c.choose(2)) if with_fm else False
    lines = []
    depth = 0
    for i, (kind, lab) in enumerate(items):
        if kind == 3:
            depth += 1
            while lines and lines[-1] == "":
                lines.pop()
            lines += ["", "    " * depth + "[^%s]: D%d definition" % (lab, i), ""]
            continue
        depth = 0
        if kind == 4:
            lines += ["# %s" % lab, ""]
        elif kind == 5:
            lines += ["```{note}", "R%d text[^%s] more" % (i, lab), "```", ""]
        elif kind == 0:
            # (with attrs_inline enabled, '{...}' after a reference must not turn '[^a]' into a bracketed span)
            lines += ["R%d text[^%s]%s more" % (i, lab, ["", "{.cls}", "{#i%d}" % i, "{}"][c.choose(4)] if attrs else ""), ""]
        elif kind == 1:
            lines += ["[^%s]: D%d definition" % (lab, i), ""]
        else:
            lines += ["> [^%s]: D%d definition" % (lab, i), ""]
    if fm:
        # the effective settings come from the front matter; the global settings say the opposite
        lines = ["---", "myst:", "  footnote_sort: %s" % str(sort).lower(), "  footnote_transition: %s" % str(trans).lower(), "---", ""] + lines
    return "\n".join(lines) + "\n", dict(items=items, sort=sort, trans=trans, fm=fm, attrs=attrs)


def settings_for(spec):
    ext = {"myst_enable_extensions": ["attrs_inline"]} if spec.get("attrs") else {}
    if spec.get("fm"):
        return dict(ext, myst_footnote_sort=not spec["sort"], myst_footnote_transition=not spec["trans"])
    return dict(ext, myst_footnote_sort=spec["sort"], myst_footnote_transition=spec["trans"])


def _own_text(f):
    """Text of a footnote without the text of footnotes nested in it."""
    from docutils import nodes

    out = []
    for ch in f.children:
        if isinstance(ch, nodes.footnote):
            continue
        out.append(_own_text(ch) if isinstance(ch, nodes.Element) else str(ch))
    return "".join(out)


def _label_key(s):
    """Ascending label order: numbers by value; labels that are digits but not decimal numbers (e.g. '\u00b2') after them."""
    try:
        return (0, int(s))
    except ValueError:
        return (1, s)


def check(doc, warn, spec):
    from docutils import nodes

    items, sort, trans = spec["items"], spec["sort"], spec["trans"]
    kept = {}
    dup = 0
    for i, (kind, lab) in enumerate(items):
        if kind in (1, 2, 3):
            if lab in kept:
                dup += 1
            else:
                kept[lab] = i
    refs_by_label = {}
    for i, (kind, lab) in enumerate(items):
        if kind in (0, 5):
            refs_by_label.setdefault(lab, []).append(i)
    fns = list(doc.findall(nodes.footnote))
    by_marker = {}
    for f in fns:
        txt = _own_text(f)
        for lab, i in kept.items():
            if "D%d definition" % i in txt:
                by_marker[lab] = f
    if len(fns) != len(kept):
        return ("definition-count", "%d footnote nodes, expected %d (kept first definition per label)" % (len(fns), len(kept)))
    for lab in kept:
        if lab not in by_marker:
            return ("definition-text-lost", "definition of [^%s] (D%d) not found in any footnote" % (lab, kept[lab]))
    labels = {}
    for lab, f in by_marker.items():
        if not len(f) or not isinstance(f[0], nodes.label):
            return ("footnote-without-label", "footnote [^%s] does not start with its label" % lab)
        labels[lab] = f[0].astext()
    if len(set(labels.values())) != len(labels):
        return ("labels-not-distinct", "labels %r" % labels)
    for lab, num in labels.items():
        if lab.isdigit() and num != lab:
            return ("numeric-label-changed", "[^%s] got label %s" % (lab, num))
    # numbering of auto labels
    manual = {l for l in kept if l.isdigit()}
    autos = [l for l in kept if not l.isdigit()]
    if sort:
        first_ref = {l: min(refs_by_label[l]) for l in autos if l in refs_by_label}
        order = sorted(first_ref, key=lambda l: first_ref[l]) + [l for l in sorted(autos, key=lambda l: kept[l]) if l not in first_ref]
    else:
        order = sorted(autos, key=lambda l: kept[l])
    n = 1
    exp_num = {}
    for l in order:
        while str(n) in manual:
            n += 1
        exp_num[l] = str(n)
        n += 1
    for l in order:
        if l in refs_by_label or not sort:
            if labels[l] != exp_num[l]:
                return ("auto-numbering", "items %r sort=%s: [^%s] numbered %s, expected %s" % (items, sort, l, labels[l], exp_num[l]))
    # references
    refnodes = {}
    for r in doc.findall(nodes.footnote_reference):
        par = r.parent.astext()
        for i, (kind, lab) in enumerate(items):
            if kind in (0, 5) and par.startswith("R%d " % i):
                refnodes[i] = r
    for lab, idxs in refs_by_label.items():
        if lab not in kept:
            continue
        f = by_marker[lab]
        for i in idxs:
            r = refnodes.get(i)
            if r is None:
                return ("reference-lost", "reference R%d to [^%s] is gone" % (i, lab))
            if r.get("refid") not in f["ids"]:
                return ("reference-wrong-target", "R%d [^%s] points at %r, definition has ids %r" % (i, lab, r.get("refid"), f["ids"]))
            if r.astext() != labels[lab]:
                return ("reference-number", "R%d [^%s] shows %s, definition is labelled %s" % (i, lab, r.astext(), labels[lab]))
        want = [refnodes[i]["ids"][0] for i in idxs if refnodes[i]["ids"]]
        if sorted(f.get("backrefs", [])) != sorted(want):
            return ("backrefs", "[^%s] backrefs %r, references %r" % (lab, f.get("backrefs"), want))
    # collection
    top = list(doc.children)
    if sort:
        tail = []
        while top and isinstance(top[-1], nodes.footnote):
            tail.insert(0, top.pop())
        if len(tail) != len(fns):
            return ("not-collected", "footnote_sort on: %d of %d footnotes at the end of the document" % (len(tail), len(fns)))
        nums = [_label_key(f[0].astext()) for f in tail]
        if nums != sorted(nums):
            return ("collected-order", "footnotes at the end are ordered %r" % [n[1] for n in nums])
        ntrans = sum(1 for c_ in doc.findall(nodes.transition))
        others = [c_ for c_ in top if not isinstance(c_, nodes.transition)]
        exp_t = 1 if (trans and fns and others) else 0
        if ntrans != exp_t:
            return ("transition-count", "footnote_transition=%s: %d transitions, expected %d" % (trans, ntrans, exp_t))
        if exp_t and not isinstance(top[-1], nodes.transition):
            return ("transition-place", "transition is not directly before the footnotes")
    else:
        for lab, f in by_marker.items():
            kind = items[kept[lab]][0]
            if (kind == 2) != isinstance(f.parent, nodes.block_quote) or (kind == 3) != isinstance(f.parent, nodes.footnote):
                return ("moved-although-unsorted", "footnote_sort off: [^%s] was moved (parent %s)" % (lab, f.parent.tagname))
        if any(True for _ in doc.findall(nodes.transition)):
            return ("transition-count", "footnote_sort off but a transition was added")
    # warnings
    ndup = warn.count("Duplicate footnote definition")
    if ndup != dup:
        return ("duplicate-warning-count", "%d duplicate-definition warnings, expected %d" % (ndup, dup))
    unref = [l for l in kept if l not in refs_by_label]
    nunref = warn.count("is not referenced")
    if nunref != len(unref):
        return ("unreferenced-warning-count", "%d unreferenced warnings, expected %d (%r)" % (nunref, len(unref), unref))
    if (ndup or nunref) and warn.count("[ref.footnote]") != ndup + nunref:
        return ("warning-tag", "warnings lack the [ref.footnote] tag: %r" % warn[:200])
    return None


def make(eng, k, labels, nkinds=3, with_fm=False, attrs=False, kindset=None, tail=()):
    setup()
    c = CR.Choice(eng)
    state = {}
    eng.witness_fn = lambda m: {"text": state.get("text"), "spec": state.get("spec")}

    def body():
        c.reset()
        text, spec = gen(c, k, labels, nkinds, with_fm, attrs, kindset, tail)
        state["text"], state["spec"] = text, spec
        try:
            doc, warn = CR.publish(text, settings_for(spec))
        except Exception as exc:  # noqa
            eng.fail("pipeline-raises", "%s: %s" % (type(exc).__name__, exc))
        err = check(doc, warn, spec)
        if err:
            eng.fail(err[0], err[1])
        eng.passed(10)
        its = spec["items"]
        defs = {l for kd, l in its if kd in (1, 2, 3)}
        if any(kd in (0, 5) and l in defs for kd, l in its) and len(its) >= 3:
            eng.note("linked")
        return "ok"

    return body


def families(tier, seed):
    q = tier == "quick"
    F = []
    for k, labels in ([(2, LABELS), (3, ["a", "b", "1"]), (3, ["a", "1", "\u00b2"]), (3, ["2", "10", "007"]), (3, ["Note", "a", "1"]), (4, ["a", "b"])] if q else [(3, LABELS), (3, LABELS + ["\u00b2", "\u0663"]), (4, ["a", "b", "2"]), (4, ["a", "2", "\u00b2"]), (5, ["a", "b"]), (4, LABELS)]):
        F.append(Family("arr/K%d-L%d%s" % (k, len(labels), "u" if any(ord(ch) > 127 for l in labels for ch in l) else "z" if "007" in labels else "c" if "Note" in labels else ""), make, "all arrangements of %d items (reference / definition / definition in a block quote) over labels %r x footnote_sort x footnote_transition" % (k, labels),
                        args=dict(k=k, labels=labels), nontrivial=("linked" if k >= 3 else None), max_forks=400000, required=(k <= 4 and len(labels) <= 3 or k <= 3)))
    F.append(Family("arr/K3-nested+frontmatter", make, "3 items (reference / definition / definition in a quote / definition nested in the body of the preceding definition) over labels ['a', '1'] x settings given globally or "
                    "overridden in the front matter (global value opposite)", args=dict(k=3, labels=["a", "1"], nkinds=4, with_fm=True), nontrivial="linked", max_forks=400000))
    F.append(Family("arr/K3-headings", make, "3 items (reference / definition / definition in a quote / heading whose title equals a label) over labels ['a', 'b']: a heading named like a label does not disturb the footnote",
                    args=dict(k=3, labels=["a", "b"], nkinds=5), nontrivial="linked", max_forks=400000))
    F.append(Family("arr/K3-attrs", make, "3 items (reference / definition) over labels ['a', '1'] with the attrs_inline extension enabled and every reference followed by nothing, '{.cls}', '{#id}' or '{}'",
                    args=dict(k=3, labels=["a", "1"], nkinds=2, attrs=True), nontrivial="linked", max_forks=400000))
    F.append(Family("arr/K4-directive-refs", make, "4 items (reference / definition / reference inside the body of a {note} directive) over labels ['a', 'b']: numbering follows the document order of first references, wherever they are",
                    args=dict(k=4, labels=["a", "b"], kindset=[0, 1, 5]), nontrivial="linked", max_forks=400000))
    F.append(Family("arr/K4-directive-refs+defs", make, "4 references (in the running text or inside a {note} body) over labels ['a', 'b'], followed by both definitions: a label first referenced inside a directive body and again later is numbered by that first reference",
                    args=dict(k=4, labels=["a", "b"], kindset=[0, 5], tail=((1, "a"), (1, "b"))), nontrivial="linked", max_forks=400000))
    F.append(Family("arr/K5-L2-flat", make, "all arrangements of 5 items (reference / definition) over labels ['a', 'b'] x both settings (repeated references between other labels' first references)",
                    args=dict(k=5, labels=["a", "b"], nkinds=2), nontrivial="linked", max_forks=400000))
    if not q:
        F.append(Family("arr/K6-L2-flat", make, "6 items, labels a/b, no quotes", args=dict(k=6, labels=["a", "b"], nkinds=2), nontrivial="linked", max_forks=400000, required=False))
    return F


def replay(label, witness):
    spec = witness["spec"]
    spec = dict(items=[tuple(x) for x in spec["items"]], sort=spec["sort"], trans=spec["trans"], fm=spec.get("fm", False), attrs=spec.get("attrs", False))
    try:
        doc, warn = CR.publish(witness["text"], settings_for(spec), real=True)
    except Exception as e:  # noqa
        return ("C11/exception:%s" % type(e).__name__, "%r on %r" % (e, witness["text"]))
    err = check(doc, warn, spec)
    if err:
        return ("C11/%s" % err[0], "document %r (sort=%s transition=%s): %s" % (witness["text"], spec["sort"], spec["trans"], err[1]))
    return None


def selftest(seed):
    problems = []
    setup()
    for text in ["x[^b] y[^a] z[^b]\n\n[^a]: A\n[^b]: B\n", "x[^a]\n\n[^a]: A\n[^a]: A2\n[^u]: unref\n"]:
        a = CR.publish(text, real=True)[0].pformat()
        b = CR.publish(text, real=False)[0].pformat()
        if a != b:
            problems.append("instrumented pipeline differs from real on %r" % text)
    return problems
