"""C07 — option tokenizer agrees with YAML on its subset and fails only its own way.

Encoded (instrumented from the current tree): myst_parser.parsers.options (whole module).
Oracle (instrumented from site-packages): yaml.reader / yaml.scanner / yaml.parser (PyYAML, pure Python),
executed symbolically side by side on the same symbolic text.
"""
from __future__ import annotations

import z3

from symx import core
from symx.core import SBool, SInt, Unsupported, b_and, b_or, b_not, mk_bool
from symx.driver import Family
from symx.instrument import load_instrumented
from symx.sstr import SStr, CP, new_str, zt, cp_in_ivs, lift

ID = "C07"
TECHNIQUE = "differential bounded symbolic execution (symx + z3) of the real options.py against the real PyYAML scanner/parser on the same symbolic text"
LEVEL_TEXT = ("Bounded symbolic verification: for every string within the stated length/alphabet/template bounds, z3 shows on every path of the real "
              "tokenizer that (A) only TokenizeError with an in-range position can escape and the scan terminates, and (B) whenever PyYAML's own token stream "
              "is inside the supported subset the (key, value) pairs are equal character by character. Stronger than sampling inside the bound, silent outside it; "
              "this is the right level because the tokenizer's behaviour depends on each character only through a few class comparisons, so a path covers an "
              "equivalence class of inputs (full Unicode N<=4 is 1.5e24 strings but 6585 paths).")
LEVEL_NOTE = ("Trusted: the symx string model and AST instrumentation (validated every run by concrete differential self-tests and by replaying every counterexample on the "
              "uninstrumented code), z3, PyYAML as the reference loader, the recorded subset refinements. Bounds per family are in the evidence file.")
BUDGET_S = {"quick": 150, "thorough": 1500}
EXPLANATION = (
    "Symbolic execution of the real options.py (instrumented at load from /repo's working tree) over symbolic "
    "option texts; obligation A (totality: only TokenizeError with an in-range position, termination within a fork "
    "budget) for every string within the bound; obligation B (differential): the real PyYAML reader/scanner/parser, "
    "instrumented the same way, runs on the same symbolic text and whenever its own token stream is inside the "
    "supported subset the (key, value) pairs must be equal character by character. z3 decides every fork and "
    "discharges every equality; candidates are replayed on the uninstrumented code before being reported."
)
ASSUMPTIONS = [
    "PyYAML 6.0.3's scanner/parser is taken as the 'conforming YAML loader' of the property; Reader.check_printable (a regex) is replaced by the equivalent range constraint",
    "subset boundary = PyYAML token stream 'BlockMappingStart (Key Scalar Value Scalar?)* BlockEnd' with keys at column 0 and value scalars at column > 0, plus recorded refinements (see SUBSET_REFINEMENTS)",
    "strings are of concrete length per family; lengths beyond the stated bounds are outside the claim",
]
OUTSIDE = ["option texts longer than the per-family bound that are not instances of a template", "validate_options=False (yaml.safe_load path)"]
STUBS = ["yaml.reader.Reader.check_printable -> range constraint over the same code point set"]
NONTRIVIAL_RULE = "paths on which the reference (PyYAML) yielded >= 1 key/value pair inside the subset and the pairs were compared (family B), or >= 1 pair was returned (family A)"

M = {}
Y = {}
SELFTEST_CANDIDATES = []
PRINTABLE = ((0x09, 0x0A), (0x0D, 0x0D), (0x20, 0x7E), (0x85, 0x85), (0xA0, 0xD7FF), (0xE000, 0xFFFD), (0x10000, 0x10FFFF))

# Every refinement of the subset is recorded with the solver witness that motivated it.
SUBSET_REFINEMENTS = [
    ("'? '", "complex-key indicator: KeyToken without a simple key -> outside 'keys are plain or quoted scalars'"),
    ('k: "\\U00110000"', "PyYAML's own scanner dies with ValueError/OverflowError in chr() for escapes above U+10FFFF: no reference value exists -> outside the subset (the tokenizer must raise TokenizeError there, obligation A)"),
    ("'a:\\n|'", "PyYAML accepts a block-scalar header at column 0 on the line after the key; YAML 1.2 s-separate(n+1) requires indentation -> value scalars must start at column > 0"),
]


def setup():
    if M:
        return
    M.update(load_instrumented(["myst_parser.parsers.options"]))
    Y.update(load_instrumented(["yaml.reader", "yaml.scanner", "yaml.parser"], re_shim=True))
    from symx import rt

    rt.TRANSPARENT_EXTRA.update(["yaml.error", "yaml.tokens", "yaml.events"])  # Mark / MarkedYAMLError only store their arguments
    _mk_loader()


def _mk_loader():
    yr, ys, yp = Y["yaml.reader"], Y["yaml.scanner"], Y["yaml.parser"]

    class SymLoader(yr.Reader, ys.Scanner, yp.Parser):
        def __init__(self, stream):
            yr.Reader.__init__(self, stream)
            ys.Scanner.__init__(self)
            yp.Parser.__init__(self)

        def check_printable(self, data):
            if isinstance(data, str):
                data = SStr.of(data)
            conj = []
            for i, c in enumerate(data.cps):
                r = cp_in_ivs(c, PRINTABLE, "yaml_printable")
                if r is False:
                    raise yr.ReaderError(self.name, i, c, "unicode", "special characters are not allowed")
                if r is not True:
                    conj.append(r)
            if conj and not b_and(*conj):
                raise yr.ReaderError(self.name, 0, 0, "unicode", "special characters are not allowed")

    Y["Loader"] = SymLoader


def _real_loader():
    import yaml.reader as yr, yaml.scanner as ys, yaml.parser as yp

    class RealLoader(yr.Reader, ys.Scanner, yp.Parser):
        def __init__(self, stream):
            yr.Reader.__init__(self, stream)
            ys.Scanner.__init__(self)
            yp.Parser.__init__(self)

    return RealLoader


def yaml_pairs(Loader, s):
    """(key, value) pairs if PyYAML's own token/event stream is inside the subset, else None."""
    import yaml.error

    try:
        loader = Loader(s)
        toks = []
        while loader.check_token():
            toks.append(loader.get_token())
    except yaml.error.YAMLError:
        return None
    except (ValueError, OverflowError):
        return None  # refinement 3: the reference itself crashes in chr()
    names = [type(t).__name__ for t in toks]
    if names != ["StreamStartToken", "StreamEndToken"]:
        if names[:2] != ["StreamStartToken", "BlockMappingStartToken"] or names[-2:] != ["BlockEndToken", "StreamEndToken"]:
            return None
        body = names[2:-2]
        tb = toks[2:-2]
        i = 0
        while i < len(body):
            if body[i : i + 3] != ["KeyToken", "ScalarToken", "ValueToken"]:
                return None
            if tb[i].start_mark.column != 0:
                return None
            i += 3
            if i < len(body) and body[i] == "ScalarToken":
                if tb[i].start_mark.column == 0:
                    return None  # refinement 2
                i += 1
    try:
        loader = Loader(s)
        evs = []
        while loader.check_event():
            evs.append(loader.get_event())
    except yaml.error.YAMLError:
        return None
    except (ValueError, OverflowError):
        return None
    kinds = [type(e).__name__ for e in evs]
    if kinds == ["StreamStartEvent", "StreamEndEvent"]:
        return []
    if kinds[:3] != ["StreamStartEvent", "DocumentStartEvent", "MappingStartEvent"] or kinds[-3:] != ["MappingEndEvent", "DocumentEndEvent", "StreamEndEvent"]:
        return None
    if evs[1].explicit or evs[-2].explicit:
        return None
    m = evs[2]
    if m.anchor is not None or m.tag is not None or m.flow_style:
        return None
    body = evs[3:-3]
    if len(body) % 2:
        return None
    for e in body:
        if type(e).__name__ != "ScalarEvent" or e.anchor is not None or e.tag is not None:
            return None
    return [(body[i].value, body[i + 1].value) for i in range(0, len(body), 2)]


def _str_eq(a, b):
    if isinstance(a, SStr) or isinstance(b, SStr):
        return SStr.of(a)._eq(b)
    return a == b


# ----------------------------------------------------------------- families


def _input(eng, spec):
    """spec: list of segments; str = concrete text, (n, alphabet|None) = n symbolic chars."""
    cps = []
    k = 0
    for seg in spec:
        if isinstance(seg, str):
            cps.extend(ord(c) for c in seg)
        else:
            n, alpha = seg
            part = new_str(eng, "s%d" % k, n, alphabet=alpha)
            cps.extend(part.cps)
            k += 1
    s = SStr(cps)
    eng.witness_fn = lambda m: {"text": s.eval(m)}
    return lift(s)


def make_totality(eng, spec):
    opts = M["myst_parser.parsers.options"]
    s = _input(eng, spec)
    n = len(s)

    def body():
        try:
            items, state = opts.options_to_items(s)
        except opts.TokenizeError as e:
            idx = e.problem_mark.index
            eng.require((idx >= 0) & (idx <= n) if isinstance(idx, SInt) else (0 <= idx <= n), "error-position")
            eng.note("tokenize_error")
            # the same error with the documented line / column offsets applied (as a caller inside a larger file passes them)
            try:
                opts.options_to_items(s, 3, 2)
                eng.fail("offset-error", "an error without offsets, none with offsets (3, 2)")
            except opts.TokenizeError as e2:
                eng.require((e2.problem_mark.line == e.problem_mark.line + 3) & (e2.problem_mark.column == e.problem_mark.column + 2) & (e2.problem_mark.index == idx), "offset-error", "position not shifted by the offsets")
            except Exception as exc:  # noqa
                eng.fail("offset-error", "options_to_items(text, 3, 2) raised %s: %s" % (type(exc).__name__, exc))
            return "TokenizeError"
        ok = isinstance(items, list)
        for kv in items:
            ok = ok and isinstance(kv, tuple) and len(kv) == 2 and all(isinstance(x, (str, SStr)) and not getattr(x, "_ctype", str) is bytes for x in kv)
        eng.require(ok, "result-shape")
        if items:
            eng.note("pairs")
        return len(items)

    return body


def make_diff(eng, spec):
    opts = M["myst_parser.parsers.options"]
    Loader = Y["Loader"]
    s = _input(eng, spec)

    def body():
        ref = yaml_pairs(Loader, s)
        try:
            items, state = opts.options_to_items(s)
        except opts.TokenizeError:
            if ref is not None:
                eng.fail("equiv-reject", "PyYAML accepts inside the subset, tokenizer raises TokenizeError")
            return "both-reject"
        if ref is None:
            return "outside-subset"
        eng.require(len(ref) == len(items), "equiv-count")
        for (k1, v1), (k2, v2) in zip(ref, items):
            eng.require(_str_eq(k1, k2), "equiv-key")
            eng.require(_str_eq(v1, v2), "equiv-value")
        if ref:
            eng.note("compared_pairs")
        return len(ref)

    return body


FULL = None
SIGMA = "a: \n#'\"\\|>-+1\t"
SUB1 = "a: \n'\"\\"
SUB2 = "a: \n#|>-"
BODY = "a \n\t#"


def _templates(nbody):
    """Concrete skeleton + symbolic holes; reaches deep branches of the scanner."""
    T = []
    # block scalars: every header form x symbolic body
    headers = ["|", ">", "|+", "|-", ">+", ">-", "|1", "|2", ">1", "|1+", "|+1", ">2-", ">-2"]
    for h in headers:
        T.append(("block%s" % h, ["k: %s\n" % h, (nbody, BODY)]))
    T.append(("block-header-sym", ["k: |", (2, "+-0129 #a"), "\n a\n"]))
    T.append(("block-indent-sym", ["k: >\n", (2, " \n"), "a\n", (2, " \n\t"), "b\n", (1, " \n"), "c"]))
    # folded lines that start with white space other than space / tab (content, so folded like any other text)
    T.append(("block-fold-unicode-space", ["k: >\n a\n ", (1, " \u3000\u00a0\ta"), "b\n ", (1, " \u2003\u3000a"), "c\n"]))
    # double-quoted escapes
    T.append(("dq-escape-letter", ['k: "', (1, None), (1, None), '"']))
    T.append(("dq-x", ['k: "\\x', (2, None), '"']))
    T.append(("dq-u", ['k: "\\u', (4, "0189afAFg")] + ['"']))
    T.append(("dq-U", ['k: "\\U', (8, "01fF")] + ['"']))
    T.append(("dq-U-hi", ['k: "\\U', (3, "0189afAF"), "00000", '"']))
    T.append(("dq-fold", ['k: "a', (3, ' \n\t\\'), 'b"']))
    T.append(("sq-quotes", ["k: 'a", (3, "' \nb"), "'"]))
    T.append(("dq-key", ['"', (2, 'a\\" :'), '": v']))
    # plain multi-line scalars
    T.append(("plain-multiline", ["k: a", (3, " \n#"), "b", (2, " \n#:"), "c"]))
    T.append(("plain-breaks", ["k: a", (1, "\r\n\x85\u2028\u2029"), (1, " \n"), " b"]))
    T.append(("two-keys", ["a:", (2, " \nb"), "\nb", (2, ": x\n")]))
    T.append(("bom", [(1, "\ufeffa "), "a: b", (1, "\ufeff\n"), "c"]))
    T.append(("comment", ["k: a", (2, " #\n"), "b", (2, " #\n")]))
    T.append(("key-colon", ["a", (3, ": b"), ": v"]))
    # an empty value followed by a (quoted) key at column 0
    T.append(("empty-then-key", ["k:", (1, " \n#"), "\n", (1, "'\"ab "), "k2", (1, "'\" :"), (1, ": "), " w\n"]))
    T.append(("quoted-keys", [(1, "'\"a"), "k", (1, "'\"a"), ":", (1, " \n"), (1, "'\"v\n"), "x", (1, "'\"\n"), "\nb: c"]))
    return T


def families(tier, seed):
    F = []
    q = tier == "quick"

    def add(kind, name, spec, bounds, required=True, forks=6000, nt=True):
        nontrivial = ("pairs" if kind == "A" else "compared_pairs") if nt else None
        make = make_totality if kind == "A" else make_diff
        F.append(Family("%s/%s" % (kind, name), make, bounds, required=required, args=dict(spec=spec),
                        nontrivial=nontrivial, max_forks=forks))

    # A: totality
    for n in range(0, (4 if q else 5) + 1):
        add("A", "unicode-N%d" % n, [(n, None)], "all strings of exactly %d code points over full Unicode" % n, required=(n <= (4 if q else 5)), nt=(n >= 2))
    for n in ([5] if q else [6, 7]):
        add("A", "sigma-N%d" % n, [(n, SIGMA)], "all strings of exactly %d chars over %r" % (n, SIGMA), required=False)
    # B: differential
    for n in range(0, (3 if q else 4) + 1):
        # N=4 (thorough only) reaches PyYAML's tag-URI percent-escape scanner, whose byte arithmetic exceeds the case-split cap on one path: reported as inconclusive, not required
        add("B", "unicode-N%d" % n, [(n, None)], "all strings of exactly %d code points over full Unicode" % n, nt=(n >= 3), required=(n <= 3))
    for n in ([4, 5] if q else [5, 6, 7]):
        add("B", "sub1-N%d" % n, [(n, SUB1)], "all strings of exactly %d chars over %r" % (n, SUB1), required=(n <= 4))
        add("B", "sub2-N%d" % n, [(n, SUB2)], "all strings of exactly %d chars over %r" % (n, SUB2), required=(n <= 4))
    for name, spec in _templates(6 if q else 8):
        nsym = sum(seg[0] for seg in spec if not isinstance(seg, str))
        add("A", "tpl-" + name, spec, "template %r with %d symbolic chars" % (_show(spec), nsym), required=False)
        add("B", "tpl-" + name, spec, "template %r with %d symbolic chars" % (_show(spec), nsym), required=True)
    return F


def _show(spec):
    return "".join(seg if isinstance(seg, str) else "<%d:%s>" % (seg[0], "U" if seg[1] is None else seg[1]) for seg in spec)


# ------------------------------------------------------------------- replay


def replay(label, witness):
    import myst_parser.parsers.options as real

    text = witness["text"]
    try:
        items, _ = real.options_to_items(text)
        err = None
    except real.TokenizeError as e:
        items, err = None, e
    except Exception as e:  # noqa: BLE001
        return ("C07/totality:%s" % type(e).__name__, "options_to_items(%r) raised %s: %s" % (text, type(e).__name__, e))
    if err is not None:
        try:
            real.options_to_items(text, 3, 2)
            return ("C07/offset-error", "options_to_items(%r) raises TokenizeError, with offsets (3, 2) it does not" % (text,))
        except real.TokenizeError as e2:
            if (e2.problem_mark.line, e2.problem_mark.column, e2.problem_mark.index) != (err.problem_mark.line + 3, err.problem_mark.column + 2, err.problem_mark.index):
                return ("C07/offset-error", "options_to_items(%r, 3, 2): error position %r, without offsets %r" % (text, e2.problem_mark, err.problem_mark))
            str(e2)
        except Exception as e:  # noqa: BLE001
            return ("C07/offset-error:%s" % type(e).__name__, "options_to_items(%r, 3, 2) raised %s: %s (TokenizeError without offsets)" % (text, type(e).__name__, e))
    if err is not None and not (0 <= err.problem_mark.index <= len(text)):
        return ("C07/error-position", "TokenizeError position %r outside text of length %d for %r" % (err.problem_mark.index, len(text), text))
    if label.startswith("equiv") or label.startswith("uncaught"):
        ref = yaml_pairs(_real_loader(), text)
        if ref is not None:
            if err is not None:
                return ("C07/equiv:reject", "PyYAML reads %r as %r but the tokenizer raises TokenizeError(%s)" % (text, ref, err.problem))
            if [tuple(x) for x in ref] != [tuple(x) for x in items]:
                return ("C07/equiv:" + _classify(text), "PyYAML reads %r as %r, tokenizer returns %r" % (text, ref, items))
    return None


def _classify(text):
    for name, chars in (("block", "|>"), ("double-quoted", '"'), ("single-quoted", "'"), ("comment", "#")):
        if any(c in text for c in chars):
            return name
    return "plain"


# ----------------------------------------------------------------- selftest


def selftest(seed):
    """Translator validation: repo fixtures + seeded random strings, instrumented vs real, concrete."""
    import glob, random
    import yaml as _yaml
    import myst_parser.parsers.options as real

    opts = M["myst_parser.parsers.options"]
    problems = []
    texts = []
    for fn in glob.glob("/repo/tests/test_renderers/fixtures/option_parsing*.yaml"):
        try:
            data = _yaml.safe_load(open(fn, encoding="utf8"))
            for v in data.values():
                if isinstance(v, dict) and isinstance(v.get("content"), str):
                    texts.append(v["content"])
        except Exception:
            pass
    rnd = random.Random(seed)
    alpha = SIGMA + "b\r\u2028\ufeff09xuU"
    for _ in range(300):
        texts.append("".join(rnd.choice(alpha) for _ in range(rnd.randint(0, 14))))
    Real = _real_loader()
    from symx.driver import call_with_timeout

    SELFTEST_CANDIDATES.clear()
    for t in texts:
        def run(mod):
            try:
                return ("ok", call_with_timeout(mod.options_to_items, 3, t)[0])
            except TimeoutError:
                return ("timeout", None)
            except Exception as e:  # noqa
                return (type(e).__name__, getattr(getattr(e, "problem_mark", None), "index", None))
        a = run(real)
        if a[0] == "timeout":
            SELFTEST_CANDIDATES.append(("termination", {"text": t}))
            continue
        b = run(opts)
        if a != b:
            problems.append("instrumented options.py differs from real on %r: %r vs %r" % (t, a, b))
        try:
            ra, rb = yaml_pairs(Real, t), yaml_pairs(Y["Loader"], t)
        except Exception as e:  # noqa
            problems.append("yaml oracle crashed on %r: %r" % (t, e))
            continue
        if ra != rb:
            problems.append("instrumented PyYAML differs from real on %r: %r vs %r" % (t, ra, rb))
        if len(problems) > 5:
            break
    return problems
