"""C13 — config is validated and normalised; overrides behave the same at every level.

Encoded: myst_parser.config.dc_validators, myst_parser.config.main (MdParserConfig, every validator,
merge_file_level, read_topmatter), instrumented from the current tree.
"""
from __future__ import annotations

import dataclasses as dc

from symx import core
from symx.core import SBool, SInt, b_and, b_or, b_not, b_iff
from symx.driver import Family
from symx.instrument import load_instrumented
from symx.sstr import SStr, new_str, new_int, new_bool, lift, join

ID = "C13"
TECHNIQUE = "bounded symbolic execution (symx + z3) of the real config validators and merge_file_level over a bounded JSON value grammar with symbolic integer leaves (all integers) and solver-enumerated shapes"
LEVEL_TEXT = ("For every config field and every value of a bounded JSON/YAML grammar (depth <= 2, width <= 2; integer leaves are unconstrained z3 integers, string leaves are drawn from a pool "
              "that contains valid and invalid spellings plus a symbolic one-character string) z3 shows that the constructor accepts exactly the values the documented type admits, that "
              "accepted values are stored in canonical form independent of the list/tuple spelling, that a front-matter override yields the same field value as the constructor "
              "(dict fields merged over the global value), that an invalid override leaves the field unchanged with exactly one warning, that merge_file_level never raises and never "
              "modifies the global configuration object nor shares its extension set with it. read_topmatter's line logic is checked on symbolic texts.")
LEVEL_NOTE = ("Degenerate in the shape dimension (the solver enumerates the shapes by case split); genuinely symbolic in integer leaves and the one-character string leaf. Trusted: symx, z3, "
              "the per-field table of documented types in this harness. yaml.safe_load is stubbed (returns the captured text); docutils' OptionParser is outside.")
BUDGET_S = {"quick": 150, "thorough": 1200}
EXPLANATION = ("Every field x bounded value grammar through the real MdParserConfig constructor, copy and merge_file_level (instrumented), compared against the documented type table; "
               "global-config immutability by deep comparison and identity of mutables before/after; read_topmatter on symbolic text with yaml.safe_load stubbed.")
ASSUMPTIONS = ["documented type of each field = its annotation / doc_type / validator docstring, written as TYPE_TABLE below (bool counts as int where Python's isinstance says so)",
               "an iterable option accepts any iterable of valid items (the validators say 'iterable'); canonical forms: set for enable_extensions/fence_as_directive, dict for url_schemes",
               "yaml.safe_load contract: returns any JSON-like value or raises yaml.YAMLError (stub returns the text it was given so the extraction can be judged)"]
OUTSIDE = ["values deeper/wider than the grammar", "docutils OptionParser string parsing (only the MyST-side validators are encoded)", "Sphinx conf.py handling (setup code)", "effect of each option on rendering"]
STUBS = ["yaml.safe_load in read_topmatter -> returns ('YAML', text)", "import_module for heading_slug_func strings is the real one (pool strings name real/unreal modules)"]
NONTRIVIAL_RULE = "paths on which the value was accepted by the constructor, or rejected with the override path exercised"

M = {}

EXT = ["amsmath", "attrs_image", "attrs_inline", "attrs_block", "colon_fence", "deflist", "dollarmath", "fieldlist", "html_admonition", "html_image", "linkify",
       "replacements", "smartquotes", "strikethrough", "substitution", "tasklist"]
BOOL_FIELDS = ["commonmark_only", "gfm_only", "all_links_external", "links_external_new_tab", "title_to_header", "footnote_sort", "footnote_transition", "linkify_fuzzy_links",
               "dmath_allow_labels", "dmath_allow_space", "dmath_allow_digits", "dmath_double_inline", "update_mathjax", "enable_checkboxes", "highlight_code_blocks"]
STRLIST_FIELDS = ["disable_syntax", "number_code_blocks", "suppress_warnings"]


def setup():
    if M:
        return
    M.update(load_instrumented(["myst_parser.config.dc_validators", "myst_parser.config.main"]))
    import yaml  # noqa: F401  (imported before any family swaps sys.modules["yaml"])
    from harness import common_render as CR

    CR.setup_pipeline()  # the option-string family uses the instrumented docutils front end; load it before the workers fork


# --------------------------------------------------------------- type table


def is_str(v):
    return isinstance(v, (str, SStr)) and not getattr(v, "_ctype", str) is bytes


def is_int(v):
    return isinstance(v, (int, SInt, SBool))


def is_bool(v):
    return isinstance(v, (bool, SBool))


def _all(xs):
    return b_and(*[x for x in xs]) if xs else True


def sym_eq(a, b):
    if isinstance(a, SStr) or isinstance(b, SStr):
        if not (is_str(a) and is_str(b)):
            return False
        return SStr.of(a)._eq(b)
    if isinstance(a, (SInt, SBool)) or isinstance(b, (SInt, SBool)):
        if isinstance(a, SBool):
            a = a.__int__()
        if isinstance(b, SBool):
            b = b.__int__()
        if isinstance(a, (int, SInt)) and isinstance(b, (int, SInt)):
            return a == b
        return False
    return type(a) is type(b) and a == b if not isinstance(a, (int, float, bool)) else a == b


def accepts(field, v):
    """Documented-type predicate -> bool | SBool."""
    if field in BOOL_FIELDS:
        return is_bool(v)
    if field == "enable_extensions":
        if isinstance(v, (list, tuple, set, frozenset, dict)):
            return _all([b_or(*[sym_eq(x, e) for e in EXT]) if is_str(x) else False for x in v])
        if is_str(v):
            return len(v) == 0  # a string is an iterable of characters: no character is an extension name
        return False
    if field in STRLIST_FIELDS:
        return isinstance(v, (list, tuple)) and all(is_str(x) for x in v)
    if field == "ref_domains":
        return v is None or (isinstance(v, (list, tuple)) and all(is_str(x) for x in v))
    if field == "fence_as_directive":
        return isinstance(v, (list, tuple, set)) and all(is_str(x) for x in v)
    if field == "url_schemes":
        if isinstance(v, (list, tuple)):
            return all(is_str(x) for x in v)
        if not isinstance(v, dict):
            return False
        for k, x in v.items():
            if not is_str(k):
                return False
            if x is None or is_str(x):
                continue
            if not isinstance(x, dict):
                return False
            if not all(is_str(kk) for kk in x):
                return False
            for kk, xx in x.items():
                kc = kk if isinstance(kk, str) else None
                if kc in ("url", "title") and not is_str(xx):
                    return False
                if kc == "classes" and not (isinstance(xx, list) and all(is_str(c) for c in xx)):
                    return False
        return True
    if field == "heading_anchors":
        if v is None:
            return True
        if is_bool(v):
            return True  # bool is an int in Python: True == 1, False == 0
        if is_int(v):
            return (v >= 0) & (v <= 7) if isinstance(v, SInt) else 0 <= v <= 7
        if isinstance(v, float):
            return v in (0.0, 1.0, 2.0, 3.0, 4.0, 5.0, 6.0, 7.0)
        return False
    if field == "heading_slug_func":
        if v is None or callable(v):
            return True
        if is_str(v):
            if isinstance(v, SStr):
                return False  # one symbolic character: not an importable dotted path
            return _names_callable(v)
        return False
    if field in ("html_meta",):
        return isinstance(v, dict) and all(is_str(k) and is_str(x) for k, x in v.items())
    if field == "substitutions":
        return isinstance(v, dict) and all(is_str(k) for k in v)
    if field == "sub_delimiters":
        return isinstance(v, (list, tuple)) and len(v) == 2 and all(is_str(x) and len(x) == 1 for x in v)
    if field == "inventories":
        if not isinstance(v, dict):
            return False
        for k, x in v.items():
            if not is_str(k) or not isinstance(x, (list, tuple)) or len(x) != 2 or not is_str(x[0]) or not (x[1] is None or is_str(x[1])):
                return False
        return True
    if field == "mathjax_classes":
        return is_str(v)
    if field == "words_per_minute":
        # a positive integer (it is used as a divisor)
        return is_int(v) and bool(v > 0)
    raise KeyError(field)


def _names_callable(path):
    """Documented form of a slug function given as text: the dotted import path of a callable."""
    import importlib

    mod, dot, name = path.rpartition(".")
    if not dot or not mod or not name:
        return False
    try:
        obj = getattr(importlib.import_module(mod), name)
    except Exception:  # noqa
        return False
    return callable(obj)


ALL_FIELDS = BOOL_FIELDS + ["enable_extensions"] + STRLIST_FIELDS + ["ref_domains", "fence_as_directive", "url_schemes", "heading_anchors", "heading_slug_func", "html_meta",
                                                                       "substitutions", "sub_delimiters", "inventories", "mathjax_classes", "words_per_minute"]

# ------------------------------------------------------------ value grammar

STR_POOL = ["amsmath", "deflist", "http", "url", "classes", "title", "x", "", "{", "myst_parser.config.main._test_slug_func", "http.nosuch", "nomodule.f", "os.sep", "sys.intern"]  # (os.sep: importable but not callable; sys.intern: a built-in, not a Python function)
KEY_POOL = ["http", "url", "classes", "title", "x"]


class Gen:
    """Bounded JSON value grammar driven by solver-enumerated choice variables."""

    def __init__(self, eng, nchoices=14):
        self.eng = eng
        self.ch = [new_int(eng, "ch%d" % i, 0, 63) for i in range(nchoices)]
        self.ints = [new_int(eng, "int0")]  # unconstrained integer (top-level atom)
        self.small = [new_int(eng, "small%d" % i, -1, 8) for i in range(2)]
        self.s1 = [lift(new_str(eng, "s1_%d" % i, 1, alphabet="x{h")) for i in range(2)]
        self.reset()

    def reset(self):
        self.i = 0
        self.ni = 0
        self.ns = 0
        self.desc = []

    def choose(self, n):
        if self.i >= len(self.ch):
            raise core.PathAbort("choice pool exhausted")
        v = self.ch[self.i]
        self.i += 1
        self.eng.assume(v < n)
        return self.eng.concretize_int(v)

    def atom(self, top=False):
        k = self.choose(7)
        if k == 0:
            return None
        if k == 1:
            return True
        if k == 2:
            return False
        if k == 3:
            if top:
                return self.ints[0]  # an unconstrained integer (any value)
            if self.ni < len(self.small):
                self.ni += 1
                return self.small[self.ni - 1]  # nested integers may be hashed by the validators: small range
            return 3
        if k == 4:
            return STR_POOL[self.choose(len(STR_POOL))]
        if k == 5:
            if self.ns < len(self.s1):
                self.ns += 1
                return self.s1[self.ns - 1]
            return "y"
        return 1.5

    def key(self):
        k = self.choose(len(KEY_POOL) + 2)
        if k < len(KEY_POOL):
            return KEY_POOL[k]
        if k == len(KEY_POOL):
            if self.ns < len(self.s1):
                self.ns += 1
                return self.s1[self.ns - 1]
            return "y"
        return 5  # non-string key

    def value(self, depth, width, dwidth=1, top=True):
        k = self.choose(4 if depth > 0 else 1)
        if k == 0:
            return self.atom(top=top)
        if k == 1 or k == 2:
            n = self.choose(width + 1)
            items = [self.value(depth - 1, width, dwidth, top=False) if depth > 1 else self.atom() for _ in range(n)]
            return items if k == 1 else tuple(items)
        n = self.choose(dwidth + 1)
        d = {}
        for _ in range(n):
            kk = self.key()
            if any(kk is k2 or (isinstance(kk, (str, int)) and isinstance(k2, (str, int)) and kk == k2) for k2 in d):
                raise core.PathAbort("duplicate key")
            d[kk] = self.value(depth - 1, width, dwidth, top=False)
        return d


def to_json(eng, m, v):
    if isinstance(v, (SStr, SInt, SBool)):
        return eng.eval_model(m, v)
    if isinstance(v, tuple):
        return {"__tuple__": [to_json(eng, m, x) for x in v]}
    if isinstance(v, list):
        return [to_json(eng, m, x) for x in v]
    if isinstance(v, dict):
        return {"__dict__": [[to_json(eng, m, k), to_json(eng, m, x)] for k, x in v.items()]}
    return v


def from_json(v):
    if isinstance(v, dict) and "__tuple__" in v:
        return tuple(from_json(x) for x in v["__tuple__"])
    if isinstance(v, dict) and "__dict__" in v:
        return {from_json(k): from_json(x) for k, x in v["__dict__"]}
    if isinstance(v, list):
        return [from_json(x) for x in v]
    return v


def conc_equal(eng, a, b):
    """Structural equality of two values that may contain symbolic leaves -> bool|SBool."""
    if isinstance(a, (SStr, SInt, SBool)) or isinstance(b, (SStr, SInt, SBool)):
        return sym_eq(a, b)
    if isinstance(a, dict) and isinstance(b, dict):
        if len(a) != len(b):
            return False
        conj = []
        for (k1, v1), (k2, v2) in zip(a.items(), b.items()):
            conj.append(conc_equal(eng, k1, k2))
            conj.append(conc_equal(eng, v1, v2))
        return b_and(*conj) if conj else True
    if isinstance(a, (set, frozenset)) and isinstance(b, (set, frozenset)):
        return len(a) == len(b) and all(any(x is y or (not isinstance(x, SStr) and not isinstance(y, SStr) and x == y) or (isinstance(x, SStr) and x is y) for y in b) for x in a)
    if isinstance(a, (list, tuple)) and isinstance(b, (list, tuple)):
        if type(a) is not type(b) or len(a) != len(b):
            return False
        conj = [conc_equal(eng, x, y) for x, y in zip(a, b)]
        return b_and(*conj) if conj else True
    if callable(a) or callable(b):
        return a is b
    return type(a) is type(b) and a == b


def snapshot(cfg):
    """(deep copy of values by repr-able structure, identities of mutables) of a config object."""
    vals = {}
    ids = {}
    for f in dc.fields(cfg):
        v = getattr(cfg, f.name)
        vals[f.name] = _freeze(v)
        ids[f.name] = id(v)
    return vals, ids


def _freeze(v):
    if isinstance(v, dict):
        return ("d", tuple((_freeze(k), _freeze(x)) for k, x in v.items()))
    if isinstance(v, (list, tuple)):
        return ("l", tuple(_freeze(x) for x in v))
    if isinstance(v, (set, frozenset)):
        return ("s", tuple(sorted(map(repr, v))))
    return ("a", repr(v) if not callable(v) else id(v))


# ----------------------------------------------------------------- families


def make_field(eng, fields, depth, width, gvariant, dwidth=1):
    cm = M["myst_parser.config.main"]
    gen = Gen(eng)
    fsel = new_int(eng, "field", 0, len(fields) - 1)
    state = {}
    eng.witness_fn = lambda m: {"field": fields[eng.eval_model(m, fsel)], "value": to_json(eng, m, state.get("v")), "gvariant": gvariant}

    def body():
        gen.reset()
        field = fields[eng.concretize_int(fsel)]
        v = gen.value(depth, width, dwidth)
        state["v"] = v
        check_value(eng, cm, field, v, gvariant)
        return field

    return body


def make_urlschemes(eng, gvariant):
    cm = M["myst_parser.config.main"]
    gen = Gen(eng)
    state = {}
    eng.witness_fn = lambda m: {"field": "url_schemes", "value": to_json(eng, m, state.get("v")), "gvariant": gvariant}

    def body():
        gen.reset()
        inner_key = ["url", "title", "classes", "x"][gen.choose(4)]
        k = gen.choose(3)
        if k == 0:
            inner = gen.atom()
        else:
            inner = [gen.atom() for _ in range(k)]
        v = {"http": {inner_key: inner}}
        state["v"] = v
        check_value(eng, cm, "url_schemes", v, gvariant)
        return inner_key

    return body


def global_config(cm, gvariant):
    if gvariant == 0:
        return cm.MdParserConfig()
    return cm.MdParserConfig(html_meta={"a": "b"}, substitutions={"k": "v", "x": 1}, url_schemes=["http", "zz"], enable_extensions=["deflist"], heading_anchors=2,
                             disable_syntax=["emphasis"], fence_as_directive=["mermaid"])


def check_value(eng, cm, field, v, gvariant):
    exp = accepts(field, v)
    # (1) constructor accepts <=> documented type
    try:
        cfg = cm.MdParserConfig(**{field: v})
        ok = True
    except (TypeError, ValueError, AttributeError, ImportError):
        ok = False
    eng.require(b_iff(exp, ok) if isinstance(exp, SBool) else exp == ok, "accept-iff-documented-type", "field %s accepted=%s expected=%s" % (field, ok, exp))
    # (2) canonical form
    if ok:
        got = getattr(cfg, field)
        if field in ("enable_extensions", "fence_as_directive"):
            eng.require(isinstance(got, set), "canonical-set", "%s stored as %s" % (field, type(got).__name__))
        if field == "url_schemes":
            eng.require(isinstance(got, dict) and all(x is None or isinstance(x, dict) for x in got.values()), "canonical-url-schemes", "stored %s" % type(got).__name__)
        if field == "heading_slug_func":
            eng.require(got is None or callable(got), "canonical-callable")
        # copy() re-validates and keeps the value
        cp = cfg.copy()
        eng.require(conc_equal(eng, getattr(cp, field), got), "copy-keeps-value")
        # list vs tuple spelling
        if isinstance(v, list) and field not in ("sub_delimiters",):
            try:
                cfg2 = cm.MdParserConfig(**{field: tuple(v)})
                if field in ("enable_extensions", "fence_as_directive", "url_schemes"):
                    eng.require(conc_equal(eng, getattr(cfg2, field), got), "spelling-independent")
            except (TypeError, ValueError):
                eng.fail("spelling-independent", "list accepted but tuple rejected for %s" % field)
        eng.note("accepted")
    # (3) front-matter override == constructor; invalid -> one warning, unchanged; global untouched; never raises
    g = global_config(cm, gvariant)
    before = snapshot(g)
    warnings = []
    try:
        new = cm.merge_file_level(g, {"myst": {field: v}}, lambda t, msg: warnings.append((t, msg)))
    except Exception as exc:  # noqa
        eng.fail("merge-raises", "%s: %s" % (type(exc).__name__, exc))
    after = snapshot(g)
    eng.require(before[0] == after[0], "global-config-modified", "field values of the global config changed")
    eng.require(before[1] == after[1], "global-config-rebound", "a mutable of the global config was replaced")
    gval = getattr(g, field)
    nval = getattr(new, field)
    # the file-level config must not share the extension set with the global one: package code (figure-md) edits it in place
    eng.require(new is g or new.enable_extensions is not g.enable_extensions, "file-config-aliases-global-extensions")
    if ok:
        eng.require(len(warnings) == 0, "valid-override-warns", repr(warnings)[:200])
        ref = getattr(cfg, field)
        meta = {f.name: f for f in dc.fields(cm.MdParserConfig)}[field].metadata
        if meta.get("merge_topmatter"):
            ref = {**gval, **ref}
        eng.require(conc_equal(eng, nval, ref), "override-equals-global-setting", "field %s: front matter gives %s, constructor gives %s" % (field, _short(nval), _short(ref)))
        if isinstance(gval, (dict, set, list)) and not (isinstance(gval, dict) and not gval and False):
            eng.require(nval is not gval or not meta.get("merge_topmatter"), "override-aliases-global")
    else:
        eng.require(len(warnings) == 1 and warnings[0][0] is cm.MystWarnings.MD_TOPMATTER if hasattr(cm, "MystWarnings") else len(warnings) == 1, "invalid-override-one-warning", repr(warnings)[:200])
        eng.require(conc_equal(eng, nval, gval), "invalid-override-changes-field", "field %s became %s" % (field, _short(nval)))
        eng.note("rejected")
    # every other field keeps the global value
    for f in dc.fields(g):
        if f.name != field:
            eng.require(_freeze(getattr(new, f.name)) == before[0][f.name], "override-touches-other-field", f.name)


def _short(v):
    try:
        s = repr(v)
    except BaseException:
        s = "<sym>"
    return s[:120]


def make_unknown(eng):
    cm = M["myst_parser.config.main"]
    k = lift(new_str(eng, "k", 2, alphabet="ab_"))
    shape = new_int(eng, "shape", 0, 3)
    eng.witness_fn = lambda m: {"unknown_key": eng.eval_model(m, k), "shape": eng.eval_model(m, shape)}

    def body():
        g = cm.MdParserConfig()
        before = snapshot(g)
        warnings = []
        s = eng.concretize_int(shape)
        top = [{"myst": {k: 1}}, {"myst": [1]}, {"myst": "x"}, {"other": 1, "html_meta": {"a": "b"}, "substitutions": {"s": 1}}][s]
        try:
            new = cm.merge_file_level(g, top, lambda t, msg: warnings.append((t, msg)))
        except Exception as exc:  # noqa
            eng.fail("merge-raises", "%s: %s" % (type(exc).__name__, exc))
        eng.require(snapshot(g) == before, "global-config-modified")
        if s == 0:
            eng.require(len(warnings) == 1, "unknown-key-one-warning", repr(warnings)[:200])
            eng.require(snapshot(new)[0] == before[0], "unknown-key-changes-config")
        elif s in (1, 2):
            eng.require(len(warnings) == 1 and snapshot(new)[0] == before[0], "non-dict-myst-one-warning")
        else:
            eng.require(len(warnings) == 2 and new.html_meta == {"a": "b"} and new.substitutions == {"s": 1}, "toplevel-backcompat")
        eng.note("accepted")
        return s

    return body


def make_topmatter(eng, n, alphabet, prefix="", suffix=""):
    cm = M["myst_parser.config.main"]
    text = lift(new_str(eng, "t", n, alphabet=alphabet)) if n else ""
    if prefix or suffix:
        text = join("", [prefix, text, suffix])
    eng.witness_fn = lambda m: {"text": eng.eval_model(m, text)}

    class _Yaml:
        class parser:
            class ParserError(Exception):
                pass

        class scanner:
            class ScannerError(Exception):
                pass

        @staticmethod
        def safe_load(s):
            return {"YAML": s}

    def body():
        import sys

        saved = sys.modules.get("yaml")
        sys.modules["yaml"] = _Yaml
        try:
            res = cm.read_topmatter(text)
        finally:
            if saved is None:
                sys.modules.pop("yaml", None)
            else:
                sys.modules["yaml"] = saved
        lines = text.splitlines() if len(text) else []
        has = len(lines) > 0 and T(lines[0].startswith("---")) if len(text) else False
        if not has:
            eng.require(res is None, "topmatter-none")
            return None
        exp = []
        for ln in lines[1:]:
            if T(ln.startswith("---")) or T(ln.startswith("...")):
                break
            exp.append(join("", [ln.rstrip(), "\n"]))
        exp_text = join("", exp) if exp else ""
        eng.require(isinstance(res, dict) and "YAML" in res, "topmatter-dict")
        got = res["YAML"]
        eng.require(sym_eq(got, exp_text) if (isinstance(got, SStr) or isinstance(exp_text, SStr)) else got == exp_text, "topmatter-text")
        eng.note("accepted")
        return "ok"

    return body


def T(v):
    return v if isinstance(v, bool) else bool(v)


# ------------------------------------------------------------ docutils option strings (third entry point)

OPT = {}


def _optstring_values(field):
    """[(option string, equivalent Python value)] for a config field, by its declared type (the documented docutils.conf spellings)."""
    import typing
    from collections.abc import Iterable, Sequence

    t = field.type
    name = field.name
    if name == "url_schemes":
        return [("http,mailto", ["http", "mailto"]), ('{"http": null, "x": "y{{path}}"}', {"http": None, "x": "y{{path}}"})]
    if t is int:
        return [("7", 7), ("1", 1)]
    if t is bool:
        return [("yes", True), ("0", False), ("True", True), ("off", False)]
    if name == "heading_slug_func":
        return [("myst_parser.config.main._test_slug_func", "myst_parser.config.main._test_slug_func")]
    if t is str:
        return [("a|b", "a|b")]
    if typing.get_origin(t) is typing.Literal:
        return [(a, a) for a in typing.get_args(t)]
    if t in (Iterable[str], Sequence[str]):
        vals = {"disable_syntax": "emphasis,strong", "number_code_blocks": "python,c", "suppress_warnings": "myst.header,myst"}.get(name, "a,b")
        return [(vals, vals.split(",")), (vals.split(",")[0], [vals.split(",")[0]])]
    if t == set[str]:
        vals = {"enable_extensions": "deflist,tasklist"}.get(name, "mermaid,x")
        return [(vals, set(vals.split(","))), (vals.split(",")[0], {vals.split(",")[0]})]
    if t == tuple[str, str]:
        return [("[,]", ("[", "]"))]
    if t == int | type(None):
        return [("3", 3), ("0", 0)]
    if t == Iterable[str] | type(None):
        return [("py,std", ["py", "std"])]
    if typing.get_origin(t) is dict:
        return [('{"k": "v"}', {"k": "v"})] if name != "inventories" else [('{"k": ["https://x.invalid", null]}', {"k": ["https://x.invalid", None]})]
    return []


def _opt_fields(cm):
    return [f for f in cm.MdParserConfig.get_fields() if "docutils" not in f.metadata.get("omit", [])]


def run_optstring(fi, vi, real=False):
    """Returns (config built from the option string, config built by the constructor, option string)."""
    from docutils import frontend

    if real:
        import myst_parser.config.main as cm
        import myst_parser.parsers.docutils_ as du
    else:
        cm, du = OPT["myst_parser.config.main"], OPT["myst_parser.parsers.docutils_"]
    field = _opt_fields(cm)[fi]
    vals = _optstring_values(field)
    if vi >= len(vals):
        return None
    ostr, pyval = vals[vi]
    flag = "--myst-" + field.name.replace("_", "-")
    parser = frontend.OptionParser(components=(du.Parser,), read_config_files=False)
    settings = parser.parse_args([flag + "=" + ostr])
    got = du.create_myst_config(settings)
    ref = cm.MdParserConfig(**{field.name: pyval})
    return field.name, ostr, getattr(got, field.name), getattr(ref, field.name), got, ref


def check_optstring(res):
    import dataclasses as dc

    name, ostr, gv, rv, got, ref = res
    if type(gv) is not type(rv) or gv != rv:
        return ("optstring-differs:%s" % name, "docutils option --myst-%s=%s gives %r (%s), the constructor stores %r (%s) for the same value" % (name.replace("_", "-"), ostr, gv, type(gv).__name__, rv, type(rv).__name__))
    for f in dc.fields(ref):
        if f.name != name and getattr(got, f.name) != getattr(ref, f.name):
            return ("optstring-touches-other-field", "--myst-%s=%s changed %s" % (name, ostr, f.name))
    return None


def make_optstrings(eng):
    setup()
    if not OPT:
        from harness import common_render as CR

        CR.setup_pipeline()
        OPT["myst_parser.parsers.docutils_"] = CR.P["docutils_"]
        import sys

        OPT["myst_parser.config.main"] = sys.modules.get("symx_copy.myst_parser.config.main") or M["myst_parser.config.main"]
        OPT["myst_parser.config.main"] = CR.P["docutils_"].MdParserConfig.__module__ and sys.modules[CR.P["docutils_"].MdParserConfig.__module__]
    from harness import common_render as CR

    c = CR.Choice(eng, width=63)
    state = {}
    eng.witness_fn = lambda m: dict(state)
    nfields = len(_opt_fields(OPT["myst_parser.config.main"]))

    def body():
        c.reset()
        fi, vi = c.choose(nfields), c.choose(4)
        state.update(optstring=[fi, vi])
        try:
            res = run_optstring(fi, vi)
        except (Exception, SystemExit) as exc:  # noqa
            eng.fail("optstring-raises", "field %d value %d: %s: %s" % (fi, vi, type(exc).__name__, str(exc)[:200]))
        if res is None:
            raise core.PathAbort("no such value")
        err = check_optstring(res)
        if err:
            eng.fail(*err)
        eng.passed(2)
        eng.note("accepted")
        return "ok"

    return body


# ------------------------------------------------------------ rendering a document leaves the configuration it was given untouched

RENDER_DOCS = ["{{ k }} and {{ env.docname }}\n", "{{ k }}\n\n{{ nosuch }}\n", "# T\n\n[a](http://x/y) <wiki:Page> [](#t)\n", "```{note}\n{{ k }}\n```\n\n- [ ] task\n", "Term\n: def {{ x }}\n\n$a$ <b>h</b>\n", "![i](a.png){#id .c}\n\n{.p}\npara\n"]
RENDER_CONFIGS = [dict(enable_extensions=["substitution", "deflist", "tasklist", "dollarmath", "attrs_inline", "attrs_block", "colon_fence"], substitutions={"k": "v *w*", "x": 1}, url_schemes={"http": None, "wiki": {"url": "https://w/{{path}}", "title": "{{path}}"}},
                       html_meta={"a": "b"}, heading_anchors=2, fence_as_directive=["mermaid"], disable_syntax=["strikethrough"]),
                  dict(enable_extensions=["substitution"], substitutions={}, sub_delimiters=("[", "]"))]


class _RenderEnv:
    """Sphinx environment stub (the renderer adds it to the substitution context as 'env')."""

    docname = "index"
    srcdir = ""

    def __init__(self):
        import collections

        self.temp_data = {}
        self.metadata = collections.defaultdict(dict)  # (as in Sphinx)

    class config:
        suppress_warnings = []
        myst_ref_domains = None
        highlight_language = "default"


def run_render_keeps(ci, di, with_env, real=False):
    from harness import common_render as CR

    ctx = CR.new_context(real=real, config=RENDER_CONFIGS[ci], sphinx_env=_RenderEnv() if with_env else None)
    cfg = ctx.renderer.md_config
    before = snapshot(cfg)
    ctx.renderer._render_tokens(ctx.md.parse(RENDER_DOCS[di], ctx.renderer.md_env))
    ctx.renderer._render_finalise()
    after = snapshot(cfg)
    if before[0] != after[0]:
        changed = [k for k in before[0] if before[0][k] != after[0][k]]
        return ("render-modifies-config", "rendering %r changed the configuration field(s) %r: now %r" % (RENDER_DOCS[di], changed, [getattr(cfg, k) for k in changed]))
    if before[1] != after[1]:
        return ("render-rebinds-config", "rendering %r replaced a configuration value" % (RENDER_DOCS[di],))
    return None


def make_render_keeps(eng):
    from harness import common_render as CR

    CR.setup()
    c = CR.Choice(eng)
    state = {}
    eng.witness_fn = lambda m: dict(state)

    def body():
        c.reset()
        ci, di, we = c.choose(len(RENDER_CONFIGS)), c.choose(len(RENDER_DOCS)), c.choose(2)
        state.update(render_keeps=[ci, di, we])
        try:
            err = run_render_keeps(ci, di, we)
        except Exception as exc:  # noqa
            eng.fail("render-raises", "%s: %s" % (type(exc).__name__, exc))
        if err:
            eng.fail(*err)
        eng.passed(2)
        eng.note("accepted")
        return "ok"

    return body


def families(tier, seed):
    q = tier == "quick"
    F = []
    F.append(Family("render-keeps-config", make_render_keeps, "%d documents (substitutions incl. 'env', links through url_schemes, attributes, directives) x %d configurations x with / without a Sphinx environment: "
                    "rendering with the configuration object itself (a document without front matter) leaves every field and every mutable of it unchanged" % (len(RENDER_DOCS), len(RENDER_CONFIGS)), nontrivial="accepted", max_forks=1000))
    groups = [("bools", BOOL_FIELDS[:4] if q else BOOL_FIELDS, 1, 1),
              ("lists", ["enable_extensions", "disable_syntax", "ref_domains", "fence_as_directive"] + ([] if q else ["number_code_blocks", "suppress_warnings"]), 1, 2),
              ("dicts", ["url_schemes", "html_meta", "substitutions", "inventories"], 2, 1),
              ("scalars", ["heading_anchors", "heading_slug_func", "sub_delimiters", "mathjax_classes", "words_per_minute"], 1, 2)]
    for gname, fields, d, w in groups:
        for gv in ((0, 1) if not q or gname in ("dicts", "lists") else (0,)):
            F.append(Family("field/%s-g%d" % (gname, gv), make_field,
                            "fields %s x value grammar depth<=%d width<=%d (atoms: None, True, False, any integer, 1.5, %d pool strings, symbolic 1-char string); global config variant %d" % (
                                fields, d, w, len(STR_POOL), gv),
                            args=dict(fields=fields, depth=d, width=w, gvariant=gv), nontrivial="accepted", max_forks=100000))
    F.append(Family("field/url-schemes-deep", make_urlschemes, "url_schemes = {key: {'url'|'title'|'classes'|'x': atom | [atom, atom]}} (depth 3)", args=dict(gvariant=1), nontrivial="accepted", max_forks=100000))
    if not q:
        F.append(Family("field/dicts-wide", make_field, "dict-valued fields x depth<=2 width<=2", args=dict(fields=["url_schemes", "inventories", "html_meta"], depth=2, width=2, gvariant=1, dwidth=2),
                        nontrivial="accepted", max_forks=100000, required=False))
    F.append(Family("unknown-keys", make_unknown, "unknown 2-char key / non-dict 'myst' / deprecated top-level keys", nontrivial="accepted"))
    for n in ([5, 7] if q else [7, 9]):
        F.append(Family("topmatter/N%d" % n, make_topmatter, "read_topmatter on all texts of %d chars over '-.a \\n'" % n, args=dict(n=n, alphabet="-.a \n"), nontrivial="accepted"))
    F.append(Family("topmatter/closers", make_topmatter, "read_topmatter on '---\\na: 1\\n' + 5 chars over '-. \\n' + '\\nb\\n' (closing fences longer than three characters, with trailing blanks)",
                    args=dict(n=5, alphabet="-. \n", prefix="---\na: 1\n", suffix="\nb\n"), nontrivial="accepted"))
    F.append(Family("optstrings", make_optstrings, "every config field that has a docutils option x 1-4 option-string spellings (comma lists, booleans, ints, YAML dictionaries) through the real OptionParser and create_myst_config: "
                    "same stored value as the constructor given the equivalent Python value", nontrivial="accepted", max_forks=10000))
    return F


# ------------------------------------------------------------------- replay


def replay(label, witness):
    if "optstring" in witness:
        try:
            res = run_optstring(witness["optstring"][0], witness["optstring"][1], real=True)
        except (Exception, SystemExit) as e:  # noqa
            return ("C13/optstring-raises:%s" % type(e).__name__, "field %r: %r" % (witness["optstring"], e))
        if res is None:
            return None
        err = check_optstring(res)
        return ("C13/%s" % err[0], err[1]) if err else None
    if "render_keeps" in witness:
        try:
            err = run_render_keeps(*witness["render_keeps"], real=True)
        except Exception as e:  # noqa
            return ("C13/render-raises:%s" % type(e).__name__, "%r" % (e,))
        return ("C13/%s" % err[0], err[1]) if err else None
    import myst_parser.config.main as real

    if "text" in witness:
        import yaml

        t = witness["text"]
        saved = yaml.safe_load
        yaml.safe_load = lambda s: {"YAML": s}
        try:
            res = real.read_topmatter(t)
        except Exception as e:  # noqa
            return ("C13/topmatter-exception", "%r on %r" % (e, t))
        finally:
            yaml.safe_load = saved
        lines = t.splitlines()
        if not lines or not lines[0].startswith("---"):
            return None if res is None else ("C13/topmatter", "read_topmatter(%r) = %r, expected None" % (t, res))
        exp = []
        for ln in lines[1:]:
            if ln.startswith(("---", "...")):
                break
            exp.append(ln.rstrip() + "\n")
        if not isinstance(res, dict) or res.get("YAML") != "".join(exp):
            return ("C13/topmatter", "read_topmatter(%r) passed %r to YAML, expected %r" % (t, res, "".join(exp)))
        return None
    if "unknown_key" in witness:
        return None
    field, v, gv = witness["field"], from_json(witness["value"]), witness["gvariant"]
    exp = accepts(field, v)
    try:
        cfg = real.MdParserConfig(**{field: v})
        ok = True
    except (TypeError, ValueError, AttributeError, ImportError):
        ok = False
    except Exception as e:  # noqa
        return ("C13/ctor-exception:%s" % type(e).__name__, "MdParserConfig(%s=%r) raised %r" % (field, v, e))
    if bool(exp) != ok:
        return ("C13/accept:%s" % field, "MdParserConfig(%s=%r): accepted=%s but the documented type %s it" % (field, v, ok, "admits" if exp else "does not admit"))
    g = global_config(real, gv)
    before = snapshot(g)
    warnings = []
    try:
        new = real.merge_file_level(g, {"myst": {field: v}}, lambda t, m: warnings.append((t, m)))
    except Exception as e:  # noqa
        return ("C13/merge-raises:%s" % type(e).__name__, "merge_file_level raised %r for %s=%r" % (e, field, v))
    if snapshot(g) != before:
        return ("C13/global-config-modified", "front matter %s=%r changed the global config object" % (field, v))
    if new is not g and new.enable_extensions is g.enable_extensions:
        return ("C13/file-config-aliases-global-extensions", "front matter %s=%r: the file-level config shares its enable_extensions set with the global config (figure-md adds to it in place)" % (field, v))
    nval, gval = getattr(new, field), getattr(g, field)
    if ok:
        ref = getattr(cfg, field)
        meta = {f.name: f for f in dc.fields(real.MdParserConfig)}[field].metadata
        if meta.get("merge_topmatter"):
            ref = {**gval, **ref}
        if warnings:
            return ("C13/valid-override-warns", "front matter %s=%r gives warnings %r" % (field, v, warnings))
        if _freeze(nval) != _freeze(ref) or type(nval) is not type(ref):
            return ("C13/override-differs:%s" % field, "front matter %s=%r stores %r, the constructor stores %r" % (field, v, nval, ref))
        if field in ("enable_extensions", "fence_as_directive") and not isinstance(getattr(cfg, field), set):
            return ("C13/canonical", "%s stored as %r" % (field, getattr(cfg, field)))
    else:
        if len(warnings) != 1:
            return ("C13/invalid-override-warnings", "invalid front matter %s=%r gives %d warnings: %r" % (field, v, len(warnings), warnings))
        if _freeze(nval) != _freeze(gval):
            return ("C13/invalid-override-applied:%s" % field, "invalid front matter %s=%r changed the field to %r" % (field, v, nval))
    for f in dc.fields(g):
        if f.name != field and _freeze(getattr(new, f.name)) != before[0][f.name]:
            return ("C13/override-touches-other-field", "%s=%r changed %s" % (field, v, f.name))
    return None


def selftest(seed):
    import myst_parser.config.main as real

    cm = M["myst_parser.config.main"]
    problems = []
    samples = [("enable_extensions", ["amsmath"]), ("enable_extensions", "amsmath"), ("url_schemes", ["http"]), ("url_schemes", {"http": {"classes": [1]}}), ("heading_anchors", 8),
               ("heading_anchors", True), ("sub_delimiters", ["{", "}"]), ("inventories", {"a": ["b", None]}), ("html_meta", {"a": 1}), ("words_per_minute", "x"),
               ("heading_slug_func", "myst_parser.config.main._test_slug_func"), ("heading_slug_func", "http.nosuch")]
    for f, v in samples:
        def run(mod):
            try:
                return ("ok", _freeze(getattr(mod.MdParserConfig(**{f: v}), f)))
            except Exception as e:  # noqa
                return (type(e).__name__, None)
        a, b = run(real), run(cm)
        if a[0] != b[0] or (a[0] == "ok" and a[1] != b[1] and f != "heading_slug_func"):
            problems.append("instrumented config differs from real on %s=%r: %r vs %r" % (f, v, a, b))
    return problems
