"""C20 — docutils security settings (raw_enabled, file_insertion_enabled) are honoured for every input.

Encoded: the post-processing of Parser.parse (docutils_.py), MockIncludeDirective.run, MockState/MockInliner (mocking.py),
render_html_*/render_hardbreak/render_s/render_restructuredtext/run_directive (base.py) — instrumented; docutils native.
"""
from __future__ import annotations

import os
import tempfile

from symx import core
from symx.driver import Family
from harness import common_render as CR

ID = "C20"
TECHNIQUE = "solver-enumerated documents in which every raw-carrying construct and every file-reading directive is instantiated with a sentinel, run through the instrumented front end under all four combinations of the two docutils security settings"
LEVEL_TEXT = ("For every document of up to K constructs drawn from the raw carriers (HTML block, inline HTML incl. adjacent and nested tags, raw role, raw directive, raw inside eval-rst, hard line "
              "break, strikethrough) and the file readers (include in plain, literal, code and docutils '<...>' form, include inside eval-rst, csv-table :file:, raw :file:), under raw_enabled x "
              "file_insertion_enabled, the final doctree is checked: with raw disabled no raw node and no sentinel payload survives, one warning per removed node, all other marker paragraphs kept "
              "in order; with file insertion disabled the sentinel file's content is absent, the file was never opened, and each refusal is reported; nothing raises. Also with headings between the constructs, "
              "with the settings spelled 0 instead of False, and under myst_suppress_warnings.")
LEVEL_NOTE = ("Degenerate (concrete documents after the solver's choices). The file system is real (temporary directory created per run); reads of the sentinel are observed by wrapping "
              "pathlib.Path.read_text / builtins.open / io.open for that path.")
BUDGET_S = {"quick": 200, "thorough": 1200}
EXPLANATION = "Sentinel documents x 4 setting combinations through the instrumented Parser; raw nodes / sentinel payloads / file opens observed."
ASSUMPTIONS = ["docutils' own directives (raw, csv-table, include inside eval-rst) honour the settings when given the real document (checked on the output)"]
OUTSIDE = ["the written HTML/LaTeX output", "Sphinx-only directives (literalinclude)", "constructs outside the list"]
STUBS = ["read observation: wrappers around Path.read_text / open that record accesses to the sentinel files"]
NONTRIVIAL_RULE = "paths with at least one raw carrier and raw disabled, or one file reader and file insertion disabled"

RAW = ["html-block", "html-inline", "html-inline-nested", "raw-role", "raw-directive", "evalrst-raw", "hardbreak", "strike", "two-html-blocks", "html-inline-checkbox", "tasklist"]
FILES = ["include", "include-literal", "include-code", "include-std", "evalrst-include", "csv-file", "raw-file"]


def setup():
    CR.setup_pipeline()


def construct(kind, n, d):
    S = "SENTINELPAYLOAD"
    if kind == "para":
        return ["P%d plain" % n]
    if kind == "heading":
        return ["#" * (1 + n % 2) + " Heading %d" % n]
    if kind == "html-block":
        return ["<div>%s%d</div>" % (S, n)]
    if kind == "two-html-blocks":
        return ["<div>%s%da</div>" % (S, n), "", "<div>%s%db</div>" % (S, n)]
    if kind == "html-inline":
        return ["P%d <b>%s%d</b> end" % (n, S, n)]
    if kind == "html-inline-checkbox":
        # author-written HTML that looks like the checkbox the tasklist extension generates
        return ["P%d <input class=\"task-list-item-checkbox\" autofocus onfocus=\"%s%d\"> end" % (n, S, n)]
    if kind == "tasklist":
        return ["- [ ] todo %d" % n, "- [x] done %d" % n]
    if kind == "html-inline-nested":
        return ["P%d <span><a href='%s%d'>x</a></span><br> end" % (n, S, n)]
    if kind == "raw-role":
        return ["P%d {raw-html}`<i>%s%d</i>` end" % (n, S, n)]
    if kind == "raw-directive":
        return ["```{raw} html", "<p>%s%d</p>" % (S, n), "```"]
    if kind == "evalrst-raw":
        return ["```{eval-rst}", ".. raw:: html", "", "   <p>%s%d</p>" % (S, n), "```"]
    if kind == "hardbreak":
        return ["P%d line one\\" % n, "line two"]
    if kind == "strike":
        return ["P%d ~~%s%d~~ end" % (n, "struck", n)]
    if kind == "include":
        return ["```{include} sentinel.md", "```"]
    if kind == "include-literal":
        return ["```{include} sentinel.md", ":literal:", "```"]
    if kind == "include-code":
        return ["```{include} sentinel.md", ":code: python", "```"]
    if kind == "include-std":
        return ["```{include} <%s>" % os.path.join(d, "sentinel.md"), "```"]
    if kind == "evalrst-include":
        return ["```{eval-rst}", ".. include:: sentinel.rst", "```"]
    if kind == "csv-file":
        return ["```{csv-table}", ":file: sentinel.csv", "```"]
    if kind == "raw-file":
        return ["```{raw} html", ":file: sentinel.html", "```"]
    raise ValueError(kind)


class ReadWatch:
    def __init__(self, d):
        self.d = d
        self.reads = []

    def __enter__(self):
        import builtins, io, pathlib

        self._open, self._ioopen, self._rt = builtins.open, io.open, pathlib.Path.read_text
        w = self

        def wopen(file, *a, **k):
            try:
                if "sentinel" in os.fspath(file) and str(file).startswith(w.d) or "sentinel" in os.path.basename(os.fspath(file)):
                    w.reads.append(str(file))
            except TypeError:
                pass
            return w._open(file, *a, **k)

        def wrt(self_, *a, **k):
            if "sentinel" in self_.name:
                w.reads.append(str(self_))
            return w._rt(self_, *a, **k)

        builtins.open = wopen
        io.open = wopen
        pathlib.Path.read_text = wrt
        return self

    def __exit__(self, *a):
        import builtins, io, pathlib

        builtins.open, io.open, pathlib.Path.read_text = self._open, self._ioopen, self._rt


def run_doc(kinds, raw_enabled, file_ins, real=False, suppress=(), route="overrides"):
    """Returns (doc, warnings, reads, text)."""
    with tempfile.TemporaryDirectory(prefix="symx_c20_") as d:
        for name, content in (("sentinel.md", "FILEPAYLOAD md *text*\n"), ("sentinel.rst", "FILEPAYLOAD rst\n"), ("sentinel.csv", "FILEPAYLOAD,csv\n"), ("sentinel.html", "<p>FILEPAYLOAD html</p>\n")):
            open(os.path.join(d, name), "w").write(content)
        lines = []
        for n, kind in enumerate(kinds):
            lines += ["M%d marker" % n, ""] + construct(kind, n, d) + [""]
        lines += ["Mend marker"]
        text = "\n".join(lines) + "\n"
        # the standard-include root: make docutils' "<...>" form resolve inside d is not needed: absolute path is given
        base_over = {"myst_enable_extensions": ["strikethrough", "tasklist"], "report_level": 2, "myst_suppress_warnings": list(suppress)}
        with ReadWatch(d) as w:
            if route == "overrides":
                doc, warn = CR.publish(text, dict(base_over, raw_enabled=raw_enabled, file_insertion_enabled=file_ins), real=real, source=os.path.join(d, "src.md"))
            elif route == "conf-parsers":
                # the documented place for the two switches: the [parsers] section of a docutils configuration file
                conf = os.path.join(d, "docutils.conf")
                open(conf, "w").write("[parsers]\nraw_enabled: %s\nfile_insertion_enabled: %s\n" % ("yes" if raw_enabled else "no", "yes" if file_ins else "no"))
                saved = os.environ.get("DOCUTILSCONFIG")
                os.environ["DOCUTILSCONFIG"] = conf
                try:
                    doc, warn = CR.publish(text, dict(base_over), real=real, source=os.path.join(d, "src.md"))
                finally:
                    if saved is None:
                        os.environ.pop("DOCUTILSCONFIG", None)
                    else:
                        os.environ["DOCUTILSCONFIG"] = saved
            else:
                # a document that carries only generic settings: docutils' secure fallback disables both switches at parse time
                import io
                from docutils.frontend import get_default_settings
                from docutils.utils import new_document

                if real:
                    from myst_parser.parsers.docutils_ import Parser
                else:
                    Parser = CR.setup_pipeline()["docutils_"].Parser
                settings = get_default_settings()
                stream = io.StringIO()
                settings.warning_stream = stream
                settings.report_level = 2
                settings.myst_enable_extensions = ["strikethrough", "tasklist"]
                settings.myst_suppress_warnings = list(suppress)
                doc = new_document(os.path.join(d, "src.md"), settings)
                Parser().parse(text, doc)
                warn = stream.getvalue()
        return doc, warn, list(w.reads), text


def check(doc, warn, reads, kinds, raw_enabled, file_ins):
    from docutils import nodes

    full = doc.pformat()
    raws = list(doc.findall(nodes.raw))
    if not raw_enabled:
        if raws:
            return ("raw-survives", "raw_enabled=False but %d raw node(s) survive: %r" % (len(raws), [r.astext()[:40] for r in raws]))
        if "SENTINELPAYLOAD" in "".join(n.astext() for n in doc.findall(nodes.Text) if isinstance(n.parent, nodes.raw)):
            return ("raw-payload-survives", "raw payload text survives")
    if not file_ins:
        if "FILEPAYLOAD" in full:
            return ("file-content-inserted", "file_insertion_enabled=False but the sentinel file's content is in the document")
        if reads:
            return ("file-read", "file_insertion_enabled=False but the sentinel file was opened: %r" % (reads[:3],))
        nfile = sum(1 for k in kinds if k in FILES)
        nmsg = len([m for m in doc.findall(nodes.system_message) if m.get("level", 0) >= 2 and any(w_ in m.astext() for w_ in ("disabled", "insertion", "deactivated"))])
        if nmsg < nfile:
            return ("refusal-not-reported", "%d file-reading directive(s) refused but only %d message(s): %r" % (nfile, nmsg, warn[:300]))
    else:
        nfile = sum(1 for k in kinds if k in FILES and not (k == "raw-file" and not raw_enabled))
        if nfile and "FILEPAYLOAD" not in full and raw_enabled:
            return ("file-not-inserted", "file insertion enabled but the sentinel content is missing")
    # every marker paragraph kept, in order
    marks = [p.astext() for p in doc.findall(nodes.paragraph) if p.astext().startswith("M") and p.astext().endswith("marker")]
    exp = ["M%d marker" % n for n in range(len(kinds))] + ["Mend marker"]
    if marks != exp:
        return ("other-content-disturbed", "marker paragraphs %r, expected %r" % (marks, exp))
    if not raw_enabled:
        # one warning per removed raw node: count the raw nodes produced with raw enabled by the MyST-side constructs
        exp_removed = 0
        for k in kinds:
            exp_removed += {"html-block": 1, "two-html-blocks": 2, "html-inline": 2, "html-inline-nested": 5, "hardbreak": 2, "strike": 2, "html-inline-checkbox": 1, "tasklist": 2}.get(k, 0)
        n = warn.count("Raw content disabled")
        nodes_n = len([m for m in doc.findall(nodes.system_message) if "Raw content disabled" in m.astext()])
        if nodes_n != exp_removed:
            return ("raw-warning-count", "%d 'Raw content disabled' message nodes for %d removed raw nodes (constructs %r)" % (nodes_n, exp_removed, kinds))
        if n != exp_removed:
            return ("raw-warning-count", "%d 'Raw content disabled' lines on the warning stream for %d removed raw nodes (constructs %r)" % (n, exp_removed, kinds))
    # the doctree stays a tree: no node object sits in two places (later transforms remove nodes through their parent)
    seen_ids = set()
    for nd in doc.findall():
        if isinstance(nd, nodes.Text):
            continue
        if id(nd) in seen_ids or (nd.parent is not None and not any(ch is nd for ch in nd.parent.children)):
            return ("node-shared", "the %s node %r is placed in the document more than once" % (nd.tagname, nd.astext()[:60]))
        seen_ids.add(id(nd))
    return None


SUPPRESS = [[], ["myst"], ["myst.*", "docutils"]]


def make(eng, k, pool, with_suppress=False, with_zero=False, routes=("overrides",)):
    setup()
    c = CR.Choice(eng, width=31)
    state = {}
    eng.witness_fn = lambda m: dict(state)

    def body():
        c.reset()
        kinds = [c.pick(pool) for _ in range(k)]
        raw_enabled = bool(c.choose(2))
        file_ins = bool(c.choose(2))
        sup = SUPPRESS[c.choose(len(SUPPRESS))] if with_suppress else []
        if with_zero and c.choose(2):
            # the settings may be spelled 0 instead of False (settings_overrides, config files with integer values)
            raw_enabled, file_ins = (raw_enabled or 0), (file_ins or 0)
        route = routes[c.choose(len(routes))] if len(routes) > 1 else routes[0]
        if route == "generic":
            raw_enabled = file_ins = False  # nothing is configured: the fallback applies
            if any(k_.startswith("evalrst") for k_ in kinds):
                raise core.PathAbort("docutils' own rST parser needs its parser settings (pep_references ...): not available with generic settings")
        state.update(kinds=kinds, raw_enabled=raw_enabled, file_ins=file_ins, suppress=sup, route=route)
        try:
            doc, warn, reads, text = run_doc(kinds, raw_enabled, file_ins, suppress=sup, route=route)
        except Exception as exc:  # noqa
            import traceback

            tb = traceback.extract_tb(exc.__traceback__)
            eng.fail("pipeline-raises", "%s: %s at %s" % (type(exc).__name__, exc, tb[-1].name if tb else "?"))
        err = check(doc, warn, reads, kinds, raw_enabled, file_ins)
        if err:
            eng.fail(err[0], err[1])
        eng.passed(6)
        if (not raw_enabled and any(x in RAW for x in kinds)) or (not file_ins and any(x in FILES for x in kinds)):
            eng.note("refused")
        return "ok"

    return body


def families(tier, seed):
    q = tier == "quick"
    F = []
    F.append(Family("single", make, "one construct from %r + %r x 4 setting combinations x myst_suppress_warnings in %r (refusals must not depend on warning suppression)" % (RAW, FILES, SUPPRESS), args=dict(k=1, pool=RAW + FILES + ["para"], with_suppress=True, with_zero=True), nontrivial="refused", max_forks=100000))
    F.append(Family("single-routes", make, "one construct x the two switches given through a docutils.conf [parsers] section, or not at all (a document with generic settings: docutils' secure fallback)",
                    args=dict(k=1, pool=RAW + FILES + ["para"], routes=("conf-parsers", "generic")), nontrivial="refused", max_forks=100000))
    F.append(Family("pairs-raw", make, "two constructs from the raw carriers, a paragraph or a heading (raw content before / after / between sections) x 4 settings", args=dict(k=2, pool=RAW + ["para", "heading"]), nontrivial="refused", max_forks=100000))
    F.append(Family("pairs-files", make, "two constructs from the file readers x 4 settings x the disabled value spelled False or 0", args=dict(k=2, pool=FILES + ["para"], with_zero=True), nontrivial="refused", max_forks=100000, required=not q))
    if not q:
        F.append(Family("triples", make, "three constructs from a mixed pool", args=dict(k=3, pool=["html-block", "html-inline", "hardbreak", "raw-role", "include", "include-std", "csv-file", "para"]),
                        nontrivial="refused", max_forks=400000, required=False))
    return F


def replay(label, witness):
    kinds, raw_enabled, file_ins = witness["kinds"], witness["raw_enabled"], witness["file_ins"]
    try:
        doc, warn, reads, text = run_doc(kinds, raw_enabled, file_ins, real=True, suppress=witness.get("suppress", []), route=witness.get("route", "overrides"))
    except Exception as e:  # noqa
        return ("C20/exception:%s" % type(e).__name__, "constructs %r raw_enabled=%s file_insertion=%s: %r" % (kinds, raw_enabled, file_ins, e))
    err = check(doc, warn, reads, kinds, raw_enabled, file_ins)
    if err:
        return ("C20/%s:%s" % (err[0], "+".join(sorted(set(kinds)))) if err[0] in ("raw-warning-count",) else "C20/%s" % err[0],
                "constructs %r raw_enabled=%s file_insertion_enabled=%s: %s" % (kinds, raw_enabled, file_ins, err[1]))
    return None


def selftest(seed):
    return []
