"""C18 — inventory loading agrees with Sphinx and is independent of stream chunking.

Encoded: myst_parser.inventory (load, _load_v1, _load_v2, InventoryFileReader.*, from_sphinx, to_sphinx)
Oracle : sphinx.util.inventory.InventoryFile.loads/_loads_v1/_loads_v2 (installed Sphinx, instrumented),
executed symbolically on the same symbolic bytes.
"""
from __future__ import annotations

import z3

from symx import core
from symx.core import SBool, SInt, Unsupported, b_and, b_or, b_not
from symx.driver import Family
from symx.instrument import load_instrumented
from symx.sstr import SStr, SBytes, new_str, new_int, new_bool, lift, join

ID = "C18"
TECHNIQUE = "differential bounded symbolic execution (symx + z3) of the real inventory loader against Sphinx's own loader on the same symbolic bytes, with the read() schedule as a solver variable"
LEVEL_TEXT = ("For every inventory file within the bounds (header with symbolic project/version, body lines with symbolic characters over an ASCII alphabet that contains the "
              "field separators, ':' '$' '-' and digits) and every schedule of read() chunk boundaries up to the stated number of cuts, z3 shows on every path that MyST's loader "
              "yields the same (domain, type, name) -> (location, display name) table as Sphinx's loader executed on the same symbolic bytes, whenever Sphinx accepts the file; "
              "that the result is the same for every read schedule (v2 and v1, up to 2-3 boundaries, inside UTF-8 sequences); and that from_sphinx(to_sphinx(inv)) == inv up to base_url.")
LEVEL_NOTE = ("Trusted: symx (string, bytes and regex models; validated each run against CPython on the repo's test inventories and random lines), z3, Sphinx 8.2.3's loader as reference. "
              "Stubs: zlib is the identity codec in both loaders (assumed contract: streaming decompression is chunk-concatenative), Sphinx's logger is a no-op, posixpath.join('', loc) = loc.")
BUDGET_S = {"quick": 150, "thorough": 1200}
EXPLANATION = ("Differential symbolic execution: MyST load() reads through an InventoryFileReader from a stub stream whose read() returns solver-chosen non-empty prefixes; "
               "Sphinx's InventoryFile.loads gets the same bytes. Obligations: equal tables when Sphinx accepts, schedule independence, no exception other than ValueError, round trip.")
ASSUMPTIONS = [
    "zlib streaming decompression is chunk-concatenative (identity codec stub on both sides)",
    "body alphabet is ASCII (plus the two-byte UTF-8 sequence C3 A9 in the utf8 families) without \\r \\v \\f \\x1c-\\x1e (Sphinx splits decompressed text on every str.splitlines boundary, MyST on \\n only; stated as outside)",
    "when Sphinx's loader rejects the file (ValueError) only totality is required of MyST (ValueError or a result)",
    "read(n) returns a non-empty prefix of what remains (<= n bytes) until exhausted, then b''",
]
OUTSIDE = ["non-ASCII bytes other than the C3/A9 pair of the utf8 families", "real zlib framing / corrupt streams", "files with more entries or longer fields than the bounds", "\\r and other non-\\n line separators"]
STUBS = ["zlib.decompressobj / zlib.decompress -> identity", "sphinx logger -> no-op", "posixpath.join(uri='', loc) -> loc", "stream.read(n) -> solver-chosen non-empty prefix"]
NONTRIVIAL_RULE = "paths on which Sphinx's loader accepted the file with >= 1 entry and the tables were compared"

M = {}
S = {}

HDR2 = b"# Sphinx inventory version 2\n"
HDR1 = b"# Sphinx inventory version 1\n"
ZLINE = b"# The remainder of this file is compressed using zlib.\n"


class _NullLogger:
    def __getattr__(self, name):
        return lambda *a, **k: None


class _IdentityDecompressor:
    def decompress(self, data):
        return data

    def flush(self):
        return b""


class _ZlibStub:
    @staticmethod
    def decompressobj(*a, **k):
        return _IdentityDecompressor()

    @staticmethod
    def decompress(data, *a, **k):
        return data


class _PosixpathStub:
    @staticmethod
    def join(a, *p):
        if a == "" and len(p) == 1:
            return p[0]
        import posixpath

        return posixpath.join(a, *p)


def setup():
    if M:
        return
    M.update(load_instrumented(["myst_parser.inventory"]))
    M["myst_parser.inventory"].zlib = _ZlibStub
    S.update(load_instrumented(["sphinx.util.inventory"]))
    sm = S["sphinx.util.inventory"]
    sm.zlib = _ZlibStub
    sm.logger = _NullLogger()
    sm.posixpath = _PosixpathStub


def cut_candidates(nhead, total):
    """Absolute stream positions offered as read boundaries: every position of the body plus the
    header's line boundaries and their neighbours (<= 60 candidates, so the case split stays small)."""
    c = set(range(max(1, nhead - 2), total))
    for p in (1, 2, len(HDR2) - 1, len(HDR2), len(HDR2) + 1, nhead // 2):
        if 0 < p < total:
            c.add(p)
    c = sorted(c)
    if len(c) > 60:
        step = len(c) / 60.0
        c = sorted(set(c[int(i * step)] for i in range(60)))
    return c


class Stream:
    """read(n) returns a non-empty prefix chosen by `cuts` (list of ints|SInt: sizes of the first reads)."""

    def __init__(self, data, cuts, eng):
        self.data = data
        self.pos = 0
        self.cuts = list(cuts)
        self.eng = eng
        self.reads = 0

    def read(self, n=-1):
        total = len(self.data)
        remaining = total - self.pos
        self.reads += 1
        if remaining <= 0:
            return b""
        k = remaining
        while self.cuts:
            c = self.cuts.pop(0)  # absolute position of the next read boundary
            if c > self.pos:
                k = min(remaining, c - self.pos)
                break
        if n is not None and n >= 0:
            k = min(k, n)
        out = self.data[self.pos : self.pos + k]
        self.pos += k
        return out


def _norm_sphinx(eng, sinv):
    """Sphinx _Inventory -> {(domain, type, name): (loc, text)} with concretised keys."""
    out = {}
    for typ, entries in sinv.data.items():
        t = eng.concretize(typ) if not isinstance(typ, str) else typ
        dom, _, ot = t.partition(":")
        for name, item in entries.items():
            n = eng.concretize(name) if not isinstance(name, str) else name
            disp = item.display_name
            out[(dom, ot, n)] = (item.uri, disp)
    return out


def _norm_myst(eng, inv):
    out = {}
    for dom, types in inv["objects"].items():
        d = eng.concretize(dom) if not isinstance(dom, str) else dom
        for ot, entries in types.items():
            o = eng.concretize(ot) if not isinstance(ot, str) else ot
            for name, item in entries.items():
                n = eng.concretize(name) if not isinstance(name, str) else name
                out[(d, o, n)] = (item["loc"], item["text"])
    return out


def _seq(a, b):
    if isinstance(a, SStr) or isinstance(b, SStr):
        if a is None or b is None:
            return False
        return SStr.of(a)._eq(b)
    return a == b


def _text_norm_eq(eng, myst_text, sphinx_disp):
    """MyST text None <-> Sphinx display name '' or '-'."""
    is_dash = b_or(_seq(sphinx_disp, "-"), len(sphinx_disp) == 0)
    if myst_text is None:
        return is_dash
    return b_and(b_not(is_dash), _seq(myst_text, sphinx_disp))


def compare_with_sphinx(eng, data_bytes, myst_result):
    sm = S["sphinx.util.inventory"]
    try:
        sinv = sm.InventoryFile.loads(data_bytes, uri="")
    except ValueError:
        eng.note("sphinx_rejects")
        return "sphinx-rejects"
    kind, inv = myst_result
    if kind != "ok":
        eng.fail("sphinx-accepts-myst-raises", "MyST raised %s" % (inv,))
    a = _norm_myst(eng, inv)
    b = _norm_sphinx(eng, sinv)
    eng.require(set(a) == set(b), "entries-differ", "myst keys %s, sphinx keys %s" % (sorted(a), sorted(b)))
    for k in a:
        eng.require(_seq(a[k][0], b[k][0]), "location-differs", "entry %s" % (k,))
        eng.require(_text_norm_eq(eng, a[k][1], b[k][1]), "display-name-differs", "entry %s" % (k,))
    if a:
        eng.note("compared")
        # project / version
        first = next(iter(sinv.data.values()))
        item = next(iter(first.values()))
        eng.require(_seq(inv["name"], item.project_name), "project-differs")
        eng.require(_seq(inv["version"], item.project_version), "version-differs")
    return "equal"


def run_myst(eng, data, cuts):
    inv = M["myst_parser.inventory"]
    try:
        return ("ok", inv.load(Stream(data, cuts, eng), base_url=None))
    except ValueError as e:
        return ("ValueError", type(e).__name__)


def _same_result(eng, r1, r2, label):
    eng.require(r1[0] == r2[0], label, "one schedule gives %s, another %s" % (r1[0], r2[0]))
    if r1[0] != "ok":
        return
    a, b = _norm_myst(eng, r1[1]), _norm_myst(eng, r2[1])
    eng.require(set(a) == set(b), label, "entries differ between read schedules: %s vs %s" % (sorted(a), sorted(b)))
    for k in a:
        eng.require(_seq(a[k][0], b[k][0]), label, "loc of %s" % (k,))
        x, y = a[k][1], b[k][1]
        eng.require((x is None and y is None) or (x is not None and y is not None and bool(_seq(x, y)) is True) if not (isinstance(x, SStr) or isinstance(y, SStr)) else _seq(x, y), label, "text of %s" % (k,))
    eng.require(_seq(r1[1]["name"], r2[1]["name"]) and _seq(r1[1]["version"], r2[1]["version"]), label)


# ----------------------------------------------------------------- families

SIGMA = "ab :-1$"


def _mk_bytes(eng, spec):
    cps = []
    k = 0
    for seg in spec:
        if isinstance(seg, (bytes, str)):
            cps.extend(seg if isinstance(seg, bytes) else seg.encode())
        else:
            n, alpha = seg
            part = new_str(eng, "f%d" % k, n, alphabet=alpha, cls=SBytes)
            cps.extend(part.cps)
            k += 1
    return lift(SBytes(cps))


def make_v2(eng, body_spec, ncuts=0, proj=1, cut_at_header_end=False):
    spec = [HDR2, b"# Project: ", (proj, "ab "), b"\n# Version: ", (proj, "1. "), b"\n", ZLINE] + list(body_spec)
    data = _mk_bytes(eng, spec)
    nhead = len(data) - sum((len(x) if isinstance(x, (bytes, str)) else x[0]) for x in body_spec)
    cands = cut_candidates(nhead, len(data))
    cuts = [new_int(eng, "cut%d" % i, 0, len(cands) - 1) for i in range(ncuts)]
    eng.witness_fn = lambda m: {"bytes": eng.eval_model(m, data).decode("latin1"), "cuts": sorted(([nhead] if cut_at_header_end else []) + [cands[eng.eval_model(m, c)] for c in cuts])}

    def body():
        r0 = run_myst(eng, data, [])
        compare_with_sphinx(eng, data, r0)
        if ncuts:
            r1 = run_myst(eng, data, sorted(([nhead] if cut_at_header_end else []) + [cands[eng.concretize_int(c)] for c in cuts]))
            _same_result(eng, r0, r1, "chunking-dependence")
        return r0[0]

    return body


def make_v1(eng, body_spec, ncuts=0):
    spec = [HDR1, b"# Project: ", (1, "ab "), b"\n# Version: ", (1, "1."), b"\n"] + list(body_spec)
    data = _mk_bytes(eng, spec)
    nhead = len(data) - sum((len(x) if isinstance(x, (bytes, str)) else x[0]) for x in body_spec)
    cands = cut_candidates(nhead, len(data))
    cuts = [new_int(eng, "cut%d" % i, 0, len(cands) - 1) for i in range(ncuts)]
    eng.witness_fn = lambda m: {"bytes": eng.eval_model(m, data).decode("latin1"), "cuts": sorted(cands[eng.eval_model(m, c)] for c in cuts)}

    def body():
        r0 = run_myst(eng, data, [])
        compare_with_sphinx(eng, data, r0)
        if ncuts:
            r1 = run_myst(eng, data, sorted(cands[eng.concretize_int(c)] for c in cuts))
            _same_result(eng, r0, r1, "chunking-dependence")
        return r0[0]

    return body


def make_v1_malformed(eng):
    """A v1 file with a malformed line (blank, one or two fields) between two entries: the load fails, or gives exactly the entries of the file without that line."""
    head = [HDR1, b"# Project: a\n# Version: 1\n"]
    e1, e2 = [b"a mod l\n"], [(1, "ab"), b" func m\n", b"c class n\n"]
    mal = [(2, "x \n"), b"\n"]
    data = _mk_bytes(eng, head + e1 + mal + e2)
    npre = sum(len(x) for x in head + e1)
    clean = data[:npre] + data[npre + 3:]
    eng.witness_fn = lambda m: {"bytes": eng.eval_model(m, data).decode("latin1"), "clean": eng.eval_model(m, clean).decode("latin1"), "cuts": []}

    def body():
        r0 = run_myst(eng, data, [])
        if r0[0] != "ok":
            eng.passed(1)
            return "rejected"
        res = compare_with_sphinx(eng, clean, r0)
        eng.require(res == "equal", "harness", "the file without the malformed line is a valid inventory")
        return "skipped"

    return body


def make_header(eng, n):
    """Arbitrary first line (symbolic) + rest: header dispatch must agree with Sphinx (accept/reject)."""
    data = _mk_bytes(eng, [b"# Sphinx inventory version ", (n, "12 \n\r"), b"# Project: a\n# Version: 1\n", ZLINE, b"a x:y 1 l -\n"])
    eng.witness_fn = lambda m: {"bytes": eng.eval_model(m, data).decode("latin1"), "cuts": []}

    def body():
        r0 = run_myst(eng, data, [])
        compare_with_sphinx(eng, data, r0)
        return r0[0]

    return body


def make_roundtrip(eng, nname):
    inv = M["myst_parser.inventory"]
    doms = [new_str(eng, "d%d" % i, 1, alphabet="ab") for i in range(2)]
    typs = [new_str(eng, "t%d" % i, 1, alphabet="ab:") for i in range(2)]
    names = [new_str(eng, "n%d" % i, nname, alphabet="ab: -") for i in range(2)]
    texts = [new_str(eng, "x%d" % i, 1, alphabet="a-") for i in range(2)]
    hastext = [new_bool(eng, "h%d" % i) for i in range(2)]
    eng.witness_fn = lambda m: {"doms": [eng.eval_model(m, x) for x in doms], "types": [eng.eval_model(m, x) for x in typs], "names": [eng.eval_model(m, x) for x in names],
                               "texts": [eng.eval_model(m, x) if eng.eval_model(m, h) else None for x, h in zip(texts, hastext)]}

    def body():
        objects = {}
        for i in range(2):
            t = lift(texts[i]) if bool(hastext[i]) else None
            if t is not None:
                eng.assume(b_not(_seq(t, "-")))  # loaders never produce '-' / '' as text
            objects.setdefault(lift(doms[i]), {}).setdefault(lift(typs[i]), {})[lift(names[i])] = {"loc": "l%d" % i, "text": t}
        src = {"name": "P", "version": "1", "base_url": None, "objects": objects}
        back = inv.from_sphinx(inv.to_sphinx(src))
        a, b = _norm_myst(eng, src), _norm_myst(eng, back)
        eng.require(set(a) == set(b), "roundtrip-entries", "%s vs %s" % (sorted(a), sorted(b)))
        for k in a:
            eng.require(a[k][0] == b[k][0], "roundtrip-loc")
            x, y = a[k][1], b[k][1]
            eng.require((x is None) == (y is None) and (x is None or bool(_seq(x, y))), "roundtrip-text")
        eng.require(back["name"] == "P" and back["version"] == "1" and back["base_url"] is None, "roundtrip-meta")
        eng.note("roundtrip")
        return "ok"

    return body


GOOD = b"aa x:y 1 l$ -\n"


def families(tier, seed):
    q = tier == "quick"
    F = []

    def v2(name, spec, bounds, ncuts=0, required=True, nt="compared"):
        F.append(Family("v2/" + name, make_v2, bounds, args=dict(body_spec=spec, ncuts=ncuts), nontrivial=nt, required=required, max_forks=20000))

    for n in ([6, 8] if q else [8, 9, 10]):
        v2("rawline-N%d" % n, [(n, SIGMA), b"\n"], "one body line of %d symbolic chars over %r + newline" % (n, SIGMA), required=(n <= (8 if q else 9)), nt=("compared" if n >= 7 else None))
    v2("rawline-after-good", [GOOD, (5 if q else 7, SIGMA), b"\n"], "a well-formed entry followed by a symbolic line", nt="compared")
    v2("rawline-before-good", [(5 if q else 7, SIGMA), b"\n", GOOD], "a symbolic (possibly malformed) line followed by a well-formed entry")
    v2("no-final-newline", [GOOD, b"b", (1, "ab "), b" x:y 1 ", (1, "l$"), b" ", (1, "-a")], "last line without terminating newline")
    v2("fields", [(2, "a $"), b" ", (1, "px"), b":", (1, "m:"), b" ", (1, "-1x"), (1, "1 "), b" ", (1, "l$"), (1, "$ "), b" ", (1, "-a"), (1, "a "), b"\n"],
       "template name(2) type(c:c) prio(2) loc(2) disp(2) with symbolic field characters")
    v2("dup-module", [(1, "mn"), b" py:module 0 first -\n", (1, "mn"), b" py:module 1 second", (1, "$ "), b"-\n", (1, "mn"), b" py:", (1, "mc"), b"odule 1 third -\n"],
       "three py:module-like entries with symbolic names: duplicate handling")
    v2("display-name-words", [b"n", (1, "ab"), b" x:y 1 loc ", (1, "aC"), b"h", (1, ": "), (1, "1a-"), b" of ", (1, "ab"), b" z", (1, " 1"), b"\n"],
       "display name of several words containing integers and ':' (the name/type/priority fields must be found from the left)")
    v2("dup-module-domain", [(1, "mn"), b" ", (1, "pc"), b"y:module 0 first -\n", (1, "mn"), b" ", (1, "pc"), b"y:module 1 second -\n"],
       "two '*y:module' entries with symbolic name and domain (py / cy): only py:module duplicates keep the first entry")
    v2("dup-other", [(1, "ab"), b" std:label 0 first T\n", (1, "ab"), b" std:label 1 second -\n"], "duplicate non-module entries (last wins in both)")
    v2("two-lines", [(3, "a :1"), b" x:y 1 l -\n", (4, "a :1$"), b"\n"], "two lines with symbolic prefixes", required=False)
    for c in ([1] if q else [1, 2, 3]):
        v2("chunks-C%d" % c, [b"a", (1, "ab "), b" x:y 1 l$ -\n", b"b p:q -1 ", (1, "l$"), b" T", (1, "a\n"), b"\n"], "2-3 entries, %d symbolic read boundaries anywhere in the file (header included)" % c,
           ncuts=c, required=(c <= (1 if q else 2)))
    F.append(Family("v2/chunks-H+C1", make_v2, "2-3 entries, one read boundary at the end of the header + 1 symbolic boundary in the body",
                    args=dict(body_spec=[b"a", (1, "ab "), b" x:y 1 l$ -\n", b"b p:q -1 ", (1, "l$"), b" T", (1, "a\n"), b"\n"], ncuts=1, cut_at_header_end=True), nontrivial="compared", max_forks=20000))
    U8 = bytes([0xC3, 0xA9, 0x61])
    for c in ([1] if q else [1, 2]):
        F.append(Family("v2/chunks-utf8-C%d" % c, make_v2, "entry whose name/display name contain 2+2 symbolic bytes over {0xC3, 0xA9, 'a'} (valid and invalid UTF-8), one read boundary at the end of the header + %d symbolic read boundaries" % c,
                        args=dict(body_spec=[b"n", (2, U8), b" x:y 1 l$ T", (2, U8), b"\nb x:y 1 m -\n"], ncuts=c, cut_at_header_end=True), nontrivial="compared", required=(c == 1), max_forks=20000))
    F.append(Family("v2/header-N%d" % (2 if q else 3), make_header, "format line '# Sphinx inventory version ' + %d symbolic chars over '12 \\n\\r'" % (2 if q else 3), args=dict(n=2 if q else 3), nontrivial=None))
    F.append(Family("v1/lines", make_v1, "v1 file with two symbolic 'name type loc' lines", args=dict(body_spec=[(2, "ab "), b" ", (3, "mod "), b" ", (2, "l ") , b"\n", b"x class y\n"], ncuts=0),
                    nontrivial="compared"))
    F.append(Family("v1/malformed-line", make_v1_malformed, "v1 file with a malformed line (2 symbolic chars over 'x', space, newline: blank lines, or fewer than three fields) between entries: the load fails or returns exactly the other entries", nontrivial="compared"))
    F.append(Family("v1/chunks", make_v1, "v1 file, 1 symbolic read boundary", args=dict(body_spec=[b"a mod l\n", (1, "ab"), b" func m\n"], ncuts=1), nontrivial="compared"))
    F.append(Family("v1/chunks-C2", make_v1, "v1 file of three entries, 2 symbolic read boundaries (an entry line straddling the second boundary)", args=dict(body_spec=[b"a mod l\n", (1, "ab"), b" func m\n", b"c class n\n"], ncuts=2),
                    nontrivial="compared", max_forks=40000))
    for nn in ([1] if q else [1, 2]):
        F.append(Family("roundtrip/N%d" % nn, make_roundtrip, "inventory with 2 entries, symbolic domain/type/name(%d)/text" % nn, args=dict(nname=nn), nontrivial="roundtrip"))
    return F


# ------------------------------------------------------------------- replay


class _RS:
    def __init__(self, data, cuts):
        self.data, self.pos, self.cuts = data, 0, list(cuts)

    def read(self, n=-1):
        rem = len(self.data) - self.pos
        if rem <= 0:
            return b""
        k = rem
        while self.cuts:
            c = self.cuts.pop(0)
            if c > self.pos:
                k = min(rem, c - self.pos)
                break
        if n is not None and n >= 0:
            k = min(k, n)
        out = self.data[self.pos : self.pos + k]
        self.pos += k
        return out


def _real_load(data, cuts):
    import myst_parser.inventory as real

    try:
        return ("ok", real.load(_RS(data, cuts)))
    except ValueError as e:
        return ("ValueError", str(e))


def replay(label, witness):
    import zlib
    import myst_parser.inventory as real

    if "doms" in witness:
        objects = {}
        for i in range(2):
            t = witness["texts"][i]
            if t == "-":
                return None
            objects.setdefault(witness["doms"][i], {}).setdefault(witness["types"][i], {})[witness["names"][i]] = {"loc": "l%d" % i, "text": t}
        src = {"name": "P", "version": "1", "base_url": None, "objects": objects}
        try:
            back = real.from_sphinx(real.to_sphinx(src))
        except Exception as e:  # noqa
            return ("C18/roundtrip-exception:%s" % type(e).__name__, "%r on %r" % (e, src))
        if back != src:
            return ("C18/roundtrip:%s" % ("colon-in-domain-or-type" if any(":" in d for d in witness["doms"] + witness["types"]) else "general"),
                    "from_sphinx(to_sphinx(inv)) != inv: %r -> %r" % (src, back))
        return None
    raw = witness["bytes"].encode("latin1")
    # The symbolic run used the identity codec.  Replay with REAL zlib: the body is deflated with
    # level 0 (stored blocks), so that plain-text read boundaries map to compressed-stream positions
    # (2-byte zlib header + 5-byte stored-block header precede the verbatim data).
    nhead = len(raw)
    data = raw
    if raw.startswith(HDR2):
        parts = raw.split(b"\n", 4)
        if len(parts) == 5:
            head = b"\n".join(parts[:4]) + b"\n"
            nhead = len(head)
            data = head + zlib.compress(parts[4], 0)
    try:
        r0 = _real_load(data, [])
    except Exception as e:  # noqa
        return ("C18/exception:%s" % type(e).__name__, "load raised %s: %s on %r" % (type(e).__name__, e, raw))
    if witness.get("cuts"):
        mapped = [c if c <= nhead or data is raw else c + 7 for c in witness["cuts"]]
        schedules = [mapped] + [[cut] for cut in range(1, len(data))]
        for sched in schedules:
            try:
                r1 = _real_load(data, sched)
            except Exception as e:  # noqa
                return ("C18/exception:%s" % type(e).__name__, "load with read boundaries %r raised %s: %s on %r" % (sched, type(e).__name__, e, raw))
            if r1 != r0:
                return ("C18/chunking", "load(%r) differs when the stream is split at %r: %r vs %r" % (raw, sched, r1, r0))
    from sphinx.util.inventory import InventoryFile

    try:
        sinv = InventoryFile.loads(witness["clean"].encode("latin1") if "clean" in witness else data, uri="")
    except ValueError:
        return None
    if r0[0] != "ok" and "clean" in witness:
        return None  # a malformed line may make the load fail
    if r0[0] != "ok":
        return ("C18/myst-rejects", "Sphinx loads %r but MyST raises ValueError(%s)" % (raw, r0[1]))
    a = {}
    for dom, types in r0[1]["objects"].items():
        for ot, entries in types.items():
            for n, item in entries.items():
                a[(dom, ot, n)] = (item["loc"], item["text"])
    b = {}
    for typ, entries in sinv.data.items():
        dom, _, ot = typ.partition(":")
        for n, item in entries.items():
            b[(dom, ot, n)] = (item.uri, None if item.display_name in ("", "-") else item.display_name)
    if a != b:
        return ("C18/differs:%s" % _classify(raw, a, b), "bytes %r: MyST %r, Sphinx %r" % (raw, a, b))
    if a:
        item = next(iter(next(iter(sinv.data.values())).values()))
        if (r0[1]["name"], r0[1]["version"]) != (item.project_name, item.project_version):
            return ("C18/project-version", "MyST (%r, %r) Sphinx (%r, %r)" % (r0[1]["name"], r0[1]["version"], item.project_name, item.project_version))
    return None


def _classify(raw, a, b):
    if not raw.endswith(b"\n") and len(b) == len(a) + 1:
        return "unterminated-last-line"
    if b"py:module" in raw and set(a) == set(b):
        return "duplicate-py-module"
    import re

    if re.search(rb"\r(?!\n)", raw.split(b"\n# The remainder")[0]) and raw.startswith(b"# Sphinx inventory version 1"):
        # a carriage return that is not part of CRLF inside the HEADER of a version-1 file: Sphinx (str.splitlines) counts it as a line of its own
        return "v1-header-lone-CR"
    return "general"


# ----------------------------------------------------------------- selftest


def _utf8_model_selftest(seed):
    """The engine's bytes.decode model (strict / replace / ignore, incl. error positions) against CPython, on every byte string of
    length <= 3 over the boundary bytes of the UTF-8 well-formedness table and on random longer ones."""
    import itertools, random
    from symx.sstr import SBytes, STR_METHODS

    dec = STR_METHODS["decode"]
    pool = [0x61, 0x80, 0xBF, 0xC2, 0xC3, 0xA9, 0xE0, 0xA0, 0xE3, 0x81, 0xED, 0x9F, 0xF0, 0x90, 0xF4, 0x8F, 0xC0, 0xF5, 0xFF, 0x0A]
    rnd = random.Random(seed)
    cases = [bytes(t) for n_ in range(0, 3) for t in itertools.product(pool, repeat=n_)] + [bytes(rnd.choice(pool) for _ in range(rnd.randint(3, 9))) for _ in range(1500)]
    out = []
    for bs in cases:
        for err in ("strict", "replace", "ignore"):
            try:
                want = bs.decode("utf-8", err)
            except UnicodeDecodeError as e:
                want = ("E", e.start, e.end)
            try:
                got = dec(SBytes(list(bs)), "utf-8", err)
                got = getattr(got, "v", got)
                got = "".join(chr(c) for c in got.cps) if hasattr(got, "cps") else got
            except UnicodeDecodeError as e:
                got = ("E", e.start, e.end)
            if got != want:
                out.append("UTF-8 decode model differs from CPython on %r errors=%s: %r vs %r" % (bs, err, got, want))
                if len(out) > 2:
                    return out
    return out


def selftest(seed):
    import glob, random, zlib, io
    import myst_parser.inventory as real
    from symx import sre

    problems = []
    cmp, bad = sre.selftest([(r"(?x)(.+?)\s+(\S+)\s+(-?\d+)\s+?(\S*)\s+(.*)", 0)], seed=seed, max_len=4, n_random=300)
    for b in bad[:3]:
        problems.append("regex shim mismatch: %r" % (b,))
    problems += _utf8_model_selftest(seed)
    inv = M["myst_parser.inventory"]
    sm = S["sphinx.util.inventory"]
    from sphinx.util.inventory import InventoryFile

    rnd = random.Random(seed)
    bodies = []
    for fn in glob.glob("/repo/tests/test_inventory/*.inv") + glob.glob("/repo/tests/**/objects*.inv", recursive=True):
        raw = open(fn, "rb").read()
        if raw.startswith(HDR2):
            parts = raw.split(b"\n", 4)
            try:
                bodies.append(zlib.decompress(parts[4])[:1500])
            except Exception:
                pass
    for _ in range(60):
        bodies.append(("\n".join("".join(rnd.choice(SIGMA + "xy") for _ in range(rnd.randint(0, 14))) for _ in range(rnd.randint(1, 4))) + rnd.choice(["", "\n"])).encode())
    for body in bodies:
        try:
            body.decode("ascii")
        except UnicodeDecodeError:
            continue
        if any(c in body for c in b"\r\x0b\x0c\x1c\x1d\x1e"):
            continue
        plain = HDR2 + b"# Project: p\n# Version: 1\n" + ZLINE + body
        comp = HDR2 + b"# Project: p\n# Version: 1\n" + ZLINE + zlib.compress(body)
        try:
            a = real.load(io.BytesIO(comp))["objects"]
        except Exception as e:  # noqa
            a = type(e).__name__
        try:
            b = inv.load(io.BytesIO(plain))["objects"]
        except Exception as e:  # noqa
            b = type(e).__name__
        if a != b:
            problems.append("instrumented MyST loader (identity zlib) differs from real (real zlib) on body %r: %r vs %r" % (body[:80], b, a))
        try:
            sa = InventoryFile.loads(comp, uri="").data
            sa = {k: {n: (i.uri, i.display_name) for n, i in v.items()} for k, v in sa.items()}
        except Exception as e:  # noqa
            sa = type(e).__name__
        try:
            sb = sm.InventoryFile.loads(plain, uri="").data
            sb = {k: {n: (i.uri, i.display_name) for n, i in v.items()} for k, v in sb.items()}
        except Exception as e:  # noqa
            sb = type(e).__name__
        if sa != sb:
            problems.append("instrumented Sphinx loader differs from real on body %r: %r vs %r" % (body[:80], sb, sa))
        if len(problems) > 4:
            break
    return problems
