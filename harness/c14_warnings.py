"""C14 — warnings: closed typed catalogue; suppression has no side effects.

Encoded: myst_parser.warnings_ (_is_suppressed_warning, create_warning, _create_warning_node), instrumented;
oracle for the predicate: sphinx.util.logging.is_suppressed_warning (instrumented) and the documented relation.
Call-site family: real emitting sites (html_to_nodes, DocutilsRenderer.create_warning users) are driven through
the instrumented renderer and the tag of every emitted message is checked against the catalogue.
"""
from __future__ import annotations

import io

from symx import core
from symx.core import SBool, SInt, b_and, b_or, b_not
from symx.driver import Family
from symx.instrument import load_instrumented
from symx.sstr import SStr, new_str, new_int, new_bool, lift, join

ID = "C14"
TECHNIQUE = "bounded symbolic execution (symx + z3) of the real suppression predicate against Sphinx's own predicate and the documented relation; real create_warning on real docutils documents with symbolic suppress lists"
LEVEL_TEXT = ("For every warning type/subtype and every suppress list within the bounds z3 shows that MyST's suppression predicate equals the documented relation (entry is the type, "
              "'type.*' or 'type.subtype') and Sphinx's own predicate, and that create_warning, on a real docutils document, returns None and neither appends nor reports anything "
              "exactly when the predicate holds and otherwise reports exactly one message ending in '[type.subtype]', appended iff requested, at the given line; every catalogue "
              "member is emitted with its tag; 22 documents (docutils front end) and 9 real Sphinx projects, one per reachable catalogue member, x suppress entry forms: tag emitted, every [myst.*] tag in the "
              "catalogue, suppression removes it from log and doctree and changes nothing else.")
LEVEL_NOTE = ("Trusted: symx, z3, real docutils (reporter) underneath, Sphinx's is_suppressed_warning as reference. The static claim 'every call site in the package' is outside "
              "(only executed call sites are observed). Warning types are dot-free, as in the catalogue.")
BUDGET_S = {"quick": 120, "thorough": 600}
EXPLANATION = ("Symbolic type/subtype/suppress-list strings through the real _is_suppressed_warning, Sphinx's predicate and the specification; real create_warning with symbolic suppress "
               "list, subtype (every MystWarnings member), append_to/line/node presence on both front ends (Sphinx env stubbed with a recording logger).")
ASSUMPTIONS = ["warning type strings contain no '.' (catalogue types are 'myst' / 'ref')", "Sphinx's logging filter applies sphinx.util.logging.is_suppressed_warning to (type, subtype) of the record",
               "document-level comparisons run with doctitle_xform off: docutils' DocTitle promotion reacts to any system_message in front of the first section (docutils behaviour, not MyST's)"]
OUTSIDE = ["static completeness over all call sites in the package (every catalogue member with a call site except 'render', 'domains' and 'html' (reachable only through a failing tokenizer, stubbed in C17) is triggered through real documents instead)",
           "Sphinx builders other than the dummy builder", "the untyped mathjax-override notice of sphinx_ext/mathjax.py (not a catalogue warning)"]
STUBS = ["document.settings.env -> object with config.suppress_warnings (Sphinx branch)", "sphinx.util.logging.getLogger -> recording logger"]
NONTRIVIAL_RULE = "paths on which the predicate was true for at least one entry and false for another, or a message was emitted"

M = {}
SP = {}


def setup():
    if M:
        return
    M.update(load_instrumented(["myst_parser.warnings_"]))
    SP.update(load_instrumented(["sphinx.util.logging"]))


def T(v):
    return v if isinstance(v, bool) else bool(v)


def _eq(a, b):
    if isinstance(a, SStr) or isinstance(b, SStr):
        return SStr.of(a)._eq(b)
    return a == b


def spec_suppressed(typ, sub, entries):
    """Documented relation, no forks."""
    alts = []
    for e in entries:
        alts.append(_eq(e, typ))
        alts.append(_eq(e, join("", [typ, ".*"])))
        alts.append(_eq(e, join("", [typ, ".", sub])))
    return b_or(*alts)


def make_predicate(eng, nt, ns, ne, k, alphabet, vs_sphinx):
    w = M["myst_parser.warnings_"]
    typ = lift(new_str(eng, "t", nt, alphabet=alphabet.replace(".", ""))) if nt else ""
    sub = lift(new_str(eng, "s", ns, alphabet=alphabet)) if ns else ""
    entries = [lift(new_str(eng, "e%d" % i, ne, alphabet=alphabet)) if ne else "" for i in range(k)]
    eng.witness_fn = lambda m: {"type": eng.eval_model(m, typ), "subtype": eng.eval_model(m, sub), "suppress": [eng.eval_model(m, e) for e in entries]}

    def body():
        got = w._is_suppressed_warning(typ, sub, entries)
        exp = spec_suppressed(typ, sub, entries)
        eng.require(core.b_iff(got, exp) if not isinstance(got, bool) or not isinstance(exp, bool) else got == exp, "predicate-vs-spec")
        if vs_sphinx:
            ref = SP["sphinx.util.logging"].is_suppressed_warning(typ, sub, entries)
            eng.require(core.b_iff(got, ref) if not isinstance(got, bool) or not isinstance(ref, bool) else got == ref, "predicate-vs-sphinx")
        if T(got):
            eng.note("pred_true")
        return bool(T(got))

    return body


class RecLogger:
    def __init__(self):
        self.calls = []

    def warning(self, msg, *a, **k):
        self.calls.append((msg, a, k))


class _Env:
    class config:
        suppress_warnings = []


def _new_doc(sphinx, suppress):
    from docutils.frontend import get_default_settings
    from docutils.utils import new_document
    from myst_parser.parsers.docutils_ import Parser

    settings = get_default_settings(Parser)
    settings.report_level = 1
    stream = io.StringIO()
    settings.warning_stream = stream
    doc = new_document("src.md", settings)
    doc.reporter.stream = stream
    if sphinx:
        env = _Env()
        env.config = type("C", (), {"suppress_warnings": suppress})()
        settings.env = env
    else:
        settings.myst_suppress_warnings = suppress
    return doc, stream


def make_create(eng, k, ne, sphinx):
    """create_warning on a real document: every catalogue member x symbolic suppress list x append/line/node presence."""
    w = M["myst_parser.warnings_"]
    from docutils import nodes

    members = list(w.MystWarnings)
    sel = new_int(eng, "member", 0, len(members))  # == len -> the documented free-form 'ref.footnote'-style string subtype
    entries = [lift(new_str(eng, "e%d" % i, ne, alphabet="myst.*hr")) for i in range(k)]
    fixed = [new_int(eng, "fx%d" % i, 0, 3) for i in range(k)]
    app = new_bool(eng, "append")
    has_line = new_bool(eng, "has_line")
    has_node = new_bool(eng, "has_node")
    eng.witness_fn = lambda m: {"member": eng.eval_model(m, sel), "suppress": [eng.eval_model(m, e) for e in entries], "fixed": [eng.eval_model(m, f) for f in fixed],
                               "append": eng.eval_model(m, app), "has_line": eng.eval_model(m, has_line), "has_node": eng.eval_model(m, has_node), "sphinx": sphinx}

    def body():
        i = eng.concretize_int(sel)
        subtype = members[i] if i < len(members) else "footnote"
        wtype = None if i < len(members) else "ref"
        tstr = "myst" if wtype is None else wtype
        sstr = subtype.value if i < len(members) else subtype
        sup = []
        for e, f in zip(entries, fixed):
            fv = eng.concretize_int(f)
            sup.append([e, tstr, tstr + ".*", tstr + "." + sstr][fv])
        doc, stream = _new_doc(sphinx, sup)
        parent = nodes.paragraph()
        doc.append(parent)
        node = nodes.emphasis()
        node.line = 5
        node.source = "src.md"
        parent.append(node)
        do_app = bool(app)
        line = 7 if bool(has_line) else None
        nd = node if bool(has_node) else None
        n_before = len(list(doc.findall(nodes.system_message)))
        rec = RecLogger()
        if sphinx:
            import sphinx.util.logging as sl

            saved = sl.getLogger
            sl.getLogger = lambda name: rec
        try:
            res = w.create_warning(doc, "msg", subtype, wtype=wtype, node=nd, line=line, append_to=(parent if do_app else None))
        finally:
            if sphinx:
                sl.getLogger = saved
        exp = spec_suppressed(tstr, sstr, sup)
        supd = T(exp)
        n_after = len(list(doc.findall(nodes.system_message)))
        out = stream.getvalue()
        if supd:
            eng.require(res is None, "suppressed-returns-none")
            eng.require(n_after == n_before, "suppressed-no-node")
            eng.require(out == "", "suppressed-nothing-reported", out)
            eng.note("pred_true")
        else:
            eng.require(res is not None and isinstance(res, nodes.system_message), "emitted-node")
            text = res.astext()
            eng.require(text.endswith("[%s.%s]" % (tstr, sstr)), "emitted-tag", text)
            eng.require((n_after == n_before + 1) == do_app and (res.parent is parent) == do_app, "append-iff-asked")
            if not sphinx:
                eng.require(out.count("[%s.%s]" % (tstr, sstr)) == 1, "reported-once", out)
            exp_line = 5 if nd is not None else line
            eng.require(res.get("line") == exp_line, "line-kept", "%r vs %r" % (res.get("line"), exp_line))
            eng.note("emitted")
        if sphinx:
            eng.require(len(rec.calls) == 1 and rec.calls[0][2].get("type") == tstr and rec.calls[0][2].get("subtype") == sstr, "sphinx-logged-once-with-type", repr(rec.calls))
        return supd

    return body


DOCS = [
    ("header", "# A\n\n### C\n\ntext\n"),
    ("xref_missing", "para [txt](#missing) and [](#missing2)\n"),
    ("directive_unknown", "```{nosuchdirective}\nx\n```\n\nafter\n"),
    ("role_unknown", "a {nosuchrole}`x` b\n"),
    ("topmatter", "---\na: [\n---\n\nbody\n"),
    ("topmatter", "---\nmyst:\n  nosuchfield: 1\n---\n\nbody\n"),
    ("topmatter", "---\ndate: 2021-13-45\n---\n\nbody\n"),  # well-formed YAML whose constructor raises ValueError (no YAMLError)
    ("topmatter", "---\n- a\n- b\n---\n\nbody\n"),  # front matter that is not a mapping
    ("substitution", "a {{ undefined_name }} b\n"),
    ("topmatter", "---\nsubstitutions:\n  key: value\n---\n\nbody {{ key }}\n"),
    ("topmatter", "---\nhtml_meta:\n  description: d\n---\n\nbody\n"),
    ("directive_option", "```{note}\n:nosuchoption: 1\n\nbody\n```\n"),
    ("directive_comments", "```{note}\n:class: x # comment\n\nbody\n```\n"),
    ("strikethrough", "a ~~b~~ c\n"),
    ("attribute", "![a](b.png){width=nonsense}\n"),
    ("duplicate_def", "[r]: http://a\n[r]: http://b\n\n[r]\n"),
    ("not_supported", "<path:file.txt> and <project:other.md>\n"),
    ("deprecated", "text\n", {"myst_enable_extensions": ["attrs_image"]}),
    ("inv_retrieval", "<inv:k#x>\n", {"myst_inventories": {"k": ["https://x.invalid/", "/nonexistent-symx/objects.inv"]}}),
    ("iref_missing", "<inv:#nosuch>\n", {"myst_inventories": {"k": ["https://x.invalid/", "@INV@"]}}),
    ("iref_ambiguous", "<inv:#*>\n", {"myst_inventories": {"k": ["https://x.invalid/", "@INV@"]}}),
    ("directive_parse", "```{image} a.png\n\nbody\n```\n"),
    ("heading_slug", "# A\n\ntext\n", {"myst_heading_slug_func": int}),
    # warnings raised inside a heading / a definition term: the name and id derived from the text do not contain them
    ("role_unknown", "# Title {nosuchrole}`x` end\n\npara\n", {"myst_heading_anchors": 1}),
    ("role_unknown", "Term {nosuchrole}`x`\n: definition\n", {"myst_enable_extensions": ["deflist"]}),
]
_INV = []


def _inv_path():
    """A small v2 inventory written once per process (used by the iref_* documents)."""
    if not _INV:
        import atexit, os, tempfile, zlib

        fd, path = tempfile.mkstemp(prefix="symx_c14_", suffix=".inv")
        body = "mod std:label -1 a.html#$ Title A\nother std:label -1 b.html -\n"
        os.write(fd, b"# Sphinx inventory version 2\n# Project: p\n# Version: 1\n# The remainder of this file is compressed using zlib.\n" + zlib.compress(body.encode()))
        os.close(fd)
        atexit.register(lambda: os.path.exists(path) and os.remove(path))
        _INV.append(path)
    return _INV[0]


def _strip_tagged(doc, tag):
    from docutils import nodes

    n = 0
    for m in list(doc.findall(nodes.system_message)):
        if ("[%s]" % tag) in m.astext():
            m.parent.remove(m)
            n += 1
    return n


def _tags_outside_catalogue(text):
    import re
    from myst_parser.warnings_ import MystWarnings

    catalogue = {m.value for m in MystWarnings}
    return sorted({t for t in re.findall(r"\[myst\.([^\]\n]+)\]", text) if t not in catalogue})


def run_suppress_case(i, form, real=False):
    """Returns (n_removed_from_plain, plain_pformat_without_tagged, suppressed_pformat, warn_plain, warn_suppressed)."""
    from harness import common_render as CR

    sub, text = DOCS[i][:2]
    tag = "myst." + sub
    entry = {0: tag, 1: "myst", 2: "myst.*"}[form]
    ext = {"myst_enable_extensions": ["substitution", "strikethrough", "attrs_inline"], "myst_heading_anchors": 2, "report_level": 2, "doctitle_xform": False}
    if len(DOCS[i]) > 2:
        import json

        extra = DOCS[i][2]
        if "myst_inventories" in extra:
            extra = dict(extra, myst_inventories=json.loads(json.dumps(extra["myst_inventories"]).replace("@INV@", _inv_path())))
        ext.update(extra)
    d1, w1 = CR.publish(text, dict(ext), real=real)
    d2, w2 = CR.publish(text, dict(ext, myst_suppress_warnings=[entry]), real=real)
    had = w1.count("[%s]" % tag)
    n = _strip_tagged(d1, tag)
    if form:
        # a bare type entry suppresses every myst warning
        from docutils import nodes

        for m in list(d1.findall(nodes.system_message)):
            if "[myst." in m.astext():
                m.parent.remove(m)
    return had, n, d1.pformat(), d2.pformat(), w1, w2, tag


def make_suppress(eng):
    from harness import common_render as CR

    CR.setup_pipeline()
    c = CR.Choice(eng, width=31)
    state = {}
    eng.witness_fn = lambda m: dict(state)

    def body():
        c.reset()
        i = c.choose(len(DOCS))
        form = c.choose(3)
        state.update(doc=i, form=form)
        try:
            had, n, p1, p2, w1, w2, tag = run_suppress_case(i, form)
        except Exception as exc:  # noqa
            eng.fail("suppress-raises", "%s: %s" % (type(exc).__name__, exc))
        eng.require(had >= 1, "catalogue-tag-emitted", "document %r did not emit [%s]: %r" % (DOCS[i][1], tag, w1[:200]))
        bad = _tags_outside_catalogue(w1 + p1)
        eng.require(not bad, "tag-outside-catalogue", "document %r emitted MyST tag(s) outside the catalogue: %r" % (DOCS[i][1], bad))
        eng.require(("[%s]" % tag) not in w2, "suppressed-still-logged", w2[:200])
        eng.require(("[%s]" % tag) not in p2, "suppressed-still-in-doctree")
        if p1 != p2:
            eng.stats["obligations"] += 1
            eng.candidates.append(core.Candidate("suppression-side-effect:%s" % tag, eng.witness(), _first_diff(p1, p2)))
        else:
            eng.passed(1)
        eng.note("emitted")
        return tag

    return body


def _first_diff(a, b):
    la, lb = a.splitlines(), b.splitlines()
    for x, y in zip(la, lb):
        if x != y:
            return "unsuppressed (warnings removed) has %r where suppressed has %r" % (x, y)
    return "line counts differ: %d vs %d" % (len(la), len(lb))


# ------------------------------------------------------------------- Sphinx front end: real builds

SPHINX_CASES = [
    # (expected subtype, conf.py lines, index.md)
    ("deprecated", "myst_enable_extensions = ['attrs_image']", "# T\n\ntext\n"),
    ("header", "", "# T\n\n### skipped\n\ntext\n"),
    ("xref_missing", "", "# T\n\n[](nosuch.md) and [t](#nosuchid)\n"),
    ("xref_missing", "", "# T\n\n[x](#) empty fragment\n"),
    ("topmatter", "", "---\nmyst:\n  nosuchfield: 1\n---\n\n# T\n"),
    ("directive_unknown", "", "# T\n\n```{nosuchdirective}\nx\n```\n"),
    ("role_unknown", "", "# T\n\na {nosuchrole}`x` b\n"),
    ("substitution", "myst_enable_extensions = ['substitution']", "# T\n\na {{ undefined_name }} b\n"),
    ("heading_slug", "myst_heading_anchors = 2\nmyst_heading_slug_func = 'builtins.int'", "# T\n\ntext\n"),
    ("xref_ambiguous", "", "# T\n\n[](#dup)\n\n```{toctree}\nother\n```\n", {"other.md": "(dup)=\n# Other\n\n```{glossary}\ndup\n  term\n```\n"}),
]
SPX = {}


def _sphinx_build(case, form, real=False):
    """One real Sphinx (dummy builder) run.  Returns the warning stream text."""
    import io, os, sys, tempfile
    from contextlib import contextmanager
    from sphinx.application import Sphinx
    from sphinx.util.docutils import docutils_namespace, patch_docutils

    sub, conf, text = SPHINX_CASES[case][:3]
    extra = SPHINX_CASES[case][3] if len(SPHINX_CASES[case]) > 3 else {}
    tag = "myst." + sub
    entry = {0: None, 1: tag, 2: "myst", 3: "myst.*"}[form]
    saved = {}
    if not real:
        for name, mod in SPX.items():
            saved[name] = sys.modules.get(name)
            sys.modules[name] = mod
    try:
        with tempfile.TemporaryDirectory(prefix="symx_c14_") as d:
            open(os.path.join(d, "conf.py"), "w").write("extensions = ['myst_parser']\n%s\nsuppress_warnings = %r\n" % (conf, [entry] if entry else []))
            open(os.path.join(d, "index.md"), "w").write(text)
            for fn, body_ in extra.items():
                open(os.path.join(d, fn), "w").write(body_)
            warn = io.StringIO()
            with docutils_namespace(), patch_docutils(d):
                app = Sphinx(d, d, os.path.join(d, "_build"), os.path.join(d, "_build", ".doctrees"), "dummy", status=None, warning=warn, freshenv=True, parallel=0)
                app.build()
            return warn.getvalue()
    finally:
        for name, mod in saved.items():
            if mod is None:
                sys.modules.pop(name, None)
            else:
                sys.modules[name] = mod


def check_sphinx_case(case, form, warn):
    import re
    from myst_parser.warnings_ import MystWarnings

    sub = SPHINX_CASES[case][0]
    tag = "[myst.%s]" % sub
    catalogue = {m.value for m in MystWarnings}
    tags = re.findall(r"\[myst\.([^\]\s]+)\]", warn)
    for t in tags:
        if t not in catalogue:
            return ("tag-outside-catalogue", "Sphinx front end logged [myst.%s], which is not in the MystWarnings catalogue: %r" % (t, warn[:300]))
    if form == 0:
        if tag not in warn:
            return ("sphinx-tag-not-emitted:%s" % sub, "expected %s in the Sphinx log: %r" % (tag, warn[:300]))
    else:
        if "[myst." in warn:
            return ("sphinx-suppression-ineffective:%s" % sub, "suppress entry form %d left MyST warnings in the log: %r" % (form, warn[:300]))
    return None


def make_sphinx(eng):
    from harness import common_render as CR

    CR.setup()
    if not SPX:
        SPX.update(load_instrumented(["myst_parser.mdit_to_docutils.sphinx_", "myst_parser.parsers.sphinx_", "myst_parser.sphinx_ext.myst_refs", "myst_parser.sphinx_ext.main"], using=CR.R))
    c = CR.Choice(eng)
    state = {}
    eng.witness_fn = lambda m: dict(state)

    def body():
        c.reset()
        case = c.choose(len(SPHINX_CASES))
        form = c.choose(4)
        state.update(sphinx_case=case, form=form)
        try:
            warn = _sphinx_build(case, form)
        except Exception as exc:  # noqa
            eng.fail("sphinx-build-raises", "%s: %s" % (type(exc).__name__, str(exc)[:300]))
        err = check_sphinx_case(case, form, warn)
        if err:
            eng.fail(*err)
        eng.passed(2)
        eng.note("emitted")
        return "ok"

    return body


def families(tier, seed):
    q = tier == "quick"
    F = []
    for (nt, ns, ne, k) in ([(1, 1, 3, 2), (2, 1, 4, 1), (1, 2, 4, 2), (2, 2, 4, 2)] if q else [(2, 2, 5, 2), (2, 2, 4, 3), (3, 2, 5, 2), (2, 3, 6, 2), (1, 1, 3, 3)]):
        F.append(Family("pred-spec/t%d-s%d-e%dx%d" % (nt, ns, ne, k), make_predicate, "type %d chars (dot-free), subtype %d chars, %d suppress entries of %d chars over 'ab.*'" % (nt, ns, k, ne),
                        args=dict(nt=nt, ns=ns, ne=ne, k=k, alphabet="ab.*", vs_sphinx=False), nontrivial="pred_true", max_forks=20000))
    for (nt, ns, ne, k) in ([(1, 1, 3, 2)] if q else [(1, 1, 3, 2), (2, 1, 4, 2), (1, 1, 3, 3)]):
        F.append(Family("pred-sphinx/t%d-s%d-e%dx%d" % (nt, ns, ne, k), make_predicate,
                        "differential vs sphinx.util.logging.is_suppressed_warning (entries are hashed by frozenset there: case-split, degenerate in the entry dimension); alphabet 'a.*'",
                        args=dict(nt=nt, ns=ns, ne=ne, k=k, alphabet="a.*", vs_sphinx=True), nontrivial="pred_true", max_forks=40000))
    for sphinx in (False, True):
        for k, ne in ([(1, 6), (2, 5)] if q else [(1, 7), (2, 6), (3, 5)]):
            F.append(Family("create/%s-k%d-e%d" % ("sphinx" if sphinx else "docutils", k, ne), make_create,
                            "every MystWarnings member (+ 'ref.footnote'), %d suppress entries each either symbolic (%d chars over 'myst.*hr') or the type / type.* / exact tag; append_to, line, node presence symbolic; %s front end" % (
                                k, ne, "Sphinx (stub env + recording logger)" if sphinx else "docutils"),
                            args=dict(k=k, ne=ne, sphinx=sphinx), nontrivial="emitted", max_forks=40000, required=(k <= 2)))
    F.append(Family("suppress-docs", make_suppress, "%d documents each triggering one catalogue warning through the whole docutils pipeline x suppress entry (exact tag / bare type / type.*): "
                    "the warning disappears from log and doctree and nothing else changes (degenerate)" % len(DOCS), nontrivial="emitted", max_forks=100000))
    F.append(Family("sphinx-builds", make_sphinx, "%d real Sphinx (dummy builder) projects each triggering one catalogue warning in the Sphinx front end (incl. the config-time deprecation and the reference "
                    "resolver's warnings) x suppress_warnings none / exact tag / bare type / type.*: tag emitted, every [myst.*] tag is in the catalogue, suppression removes it" % len(SPHINX_CASES),
                    nontrivial="emitted", max_forks=100000))
    return F


# ------------------------------------------------------------------- replay


def _spec_py(typ, sub, entries):
    return any(e == typ or e == typ + ".*" or e == "%s.%s" % (typ, sub) for e in entries)


def replay(label, witness):
    import myst_parser.warnings_ as real
    from docutils import nodes

    if "sphinx_case" in witness:
        try:
            warn = _sphinx_build(witness["sphinx_case"], witness["form"], real=True)
        except Exception as e:  # noqa
            return ("C14/exception:%s" % type(e).__name__, "%r" % (e,))
        err = check_sphinx_case(witness["sphinx_case"], witness["form"], warn)
        return ("C14/%s" % err[0], err[1]) if err else None
    if "doc" in witness:
        try:
            had, n, p1, p2, w1, w2, tag = run_suppress_case(witness["doc"], witness["form"], real=True)
        except Exception as e:  # noqa
            return ("C14/exception:%s" % type(e).__name__, "%r" % (e,))
        bad = _tags_outside_catalogue(w1 + p1)
        if bad:
            return ("C14/tag-outside-catalogue", "document %r emitted MyST tag(s) outside the catalogue: %r" % (DOCS[witness["doc"]][1], bad))
        if had < 1:
            return ("C14/tag-not-emitted:%s" % tag, "document %r does not emit [%s]: %r" % (DOCS[witness["doc"]][1], tag, w1[:300]))
        if ("[%s]" % tag) in w2 or ("[%s]" % tag) in p2:
            return ("C14/suppression-ineffective:%s" % tag, "suppressed run still shows [%s]" % tag)
        if p1 != p2:
            return ("C14/suppression-side-effect:%s" % tag, "document %r: %s" % (DOCS[witness["doc"]][1], _first_diff(p1, p2)))
        return None

    if "type" in witness:
        typ, sub, sup = witness["type"], witness["subtype"], witness["suppress"]
        if "." in typ:
            return None
        got = real._is_suppressed_warning(typ, sub, sup)
        exp = _spec_py(typ, sub, sup)
        if got != exp:
            return ("C14/predicate", "_is_suppressed_warning(%r, %r, %r) = %r, documented relation gives %r" % (typ, sub, sup, got, exp))
        from sphinx.util.logging import is_suppressed_warning

        ref = is_suppressed_warning(typ, sub, sup)
        if got != ref:
            return ("C14/predicate-vs-sphinx", "MyST %r vs Sphinx %r for (%r, %r, %r)" % (got, ref, typ, sub, sup))
        return None
    members = list(real.MystWarnings)
    i = witness["member"]
    subtype = members[i] if i < len(members) else "footnote"
    wtype = None if i < len(members) else "ref"
    tstr = "myst" if wtype is None else wtype
    sstr = subtype.value if i < len(members) else subtype
    sup = [[e, tstr, tstr + ".*", tstr + "." + sstr][f] for e, f in zip(witness["suppress"], witness["fixed"])]
    sphinx = witness["sphinx"]
    doc, stream = _new_doc(sphinx, sup)
    parent = nodes.paragraph()
    doc.append(parent)
    node = nodes.emphasis()
    node.line = 5
    node.source = "src.md"
    parent.append(node)
    rec = RecLogger()
    if sphinx:
        import sphinx.util.logging as sl

        saved = sl.getLogger
        sl.getLogger = lambda name: rec
    try:
        try:
            res = real.create_warning(doc, "msg", subtype, wtype=wtype, node=node if witness["has_node"] else None, line=7 if witness["has_line"] else None,
                                      append_to=parent if witness["append"] else None)
        finally:
            if sphinx:
                sl.getLogger = saved
    except Exception as e:  # noqa
        return ("C14/exception:%s" % type(e).__name__, "create_warning raised %r for %r" % (e, witness))
    supd = _spec_py(tstr, sstr, sup)
    n_msgs = len(list(doc.findall(nodes.system_message)))
    out = stream.getvalue()
    tag = "[%s.%s]" % (tstr, sstr)
    if supd:
        if res is not None or n_msgs or out:
            return ("C14/suppressed-side-effect", "suppress=%r tag=%s: returned %r, %d message node(s), reported %r" % (sup, tag, res, n_msgs, out))
    else:
        if res is None:
            return ("C14/not-suppressed-but-dropped", "suppress=%r tag=%s returned None" % (sup, tag))
        if not res.astext().endswith(tag):
            return ("C14/tag", "message %r does not end with %s" % (res.astext(), tag))
        if (n_msgs == 1) != bool(witness["append"]) or (res.parent is parent) != bool(witness["append"]):
            return ("C14/append", "append_to=%r but %d message nodes in tree" % (witness["append"], n_msgs))
        if not sphinx and out.count(tag) != 1:
            return ("C14/reported-count", "reported %r" % out)
        exp_line = 5 if witness["has_node"] else (7 if witness["has_line"] else None)
        if res.get("line") != exp_line:
            return ("C14/line", "line %r expected %r" % (res.get("line"), exp_line))
    if sphinx and not (len(rec.calls) == 1 and rec.calls[0][2].get("type") == tstr and rec.calls[0][2].get("subtype") == sstr):
        return ("C14/sphinx-log", "logger calls %r" % (rec.calls,))
    return None


def selftest(seed):
    import random
    import myst_parser.warnings_ as real

    w = M["myst_parser.warnings_"]
    rnd = random.Random(seed)
    problems = []
    for _ in range(500):
        t = "".join(rnd.choice("ab") for _ in range(rnd.randint(0, 2)))
        s = "".join(rnd.choice("ab.*") for _ in range(rnd.randint(0, 3)))
        es = ["".join(rnd.choice("ab.*") for _ in range(rnd.randint(0, 5))) for _ in range(rnd.randint(0, 3))]
        if real._is_suppressed_warning(t, s, es) != w._is_suppressed_warning(t, s, es):
            problems.append("instrumented predicate differs on %r" % ((t, s, es),))
            break
    return problems
