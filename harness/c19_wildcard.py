"""C19 — inventory filtering implements exactly the documented wildcard semantics.

Encoded: myst_parser.inventory (_create_regex.__wrapped__, match_with_wildcard, filter_inventories,
filter_sphinx_inventories, from_sphinx, to_sphinx, filter_string), instrumented from the current tree.

Family W (deciding query in z3's regular-expression theory, names of UNBOUNDED length):
  _create_regex runs symbolically over the pattern p; on each path the emitted regex text has a
  concrete structure and symbolic ordinary literals; it is parsed by re._parser and translated node
  by node into a z3 regular expression R_impl; the documented relation is built directly from p as
  R_spec; z3 decides  exists n . (n in R_impl) xor (n in R_spec).
Family F: filter_inventories / filter_sphinx_inventories over small inventories with symbolic names.
"""
from __future__ import annotations

import re
import re._constants as K
import re._parser as P

import z3

from symx import core
from symx.core import SBool, SInt, Unsupported, b_and, b_or, b_not, b_iff
from symx.driver import Family
from symx.instrument import load_instrumented
from symx.sstr import SStr, CP, new_str, new_int, lift, zt, cp_in_ivs, ivs_of_chars, table, join

ID = "C19"
TECHNIQUE = "symbolic execution of the real wildcard translator (symx) + z3 regular-expression theory: inequivalence query between the emitted regex and the documented relation with names of unbounded length"
LEVEL_TEXT = ("For every pattern up to the length bound (code points <= U+2FFFF, z3's character range) z3 proves that the regular expression the real _create_regex emits accepts "
              "exactly the names the documented wildcard relation accepts - for names of ANY length (z3 regex theory, no bound on the name) - or returns a (pattern, name) "
              "witness that is replayed through the real match_with_wildcard. filter_inventories/filter_sphinx_inventories are executed symbolically over bounded "
              "inventories with symbolic names (incl. object types containing ':') and compared with the four-coordinate specification and with each other; inv: links through the real renderer over two "
              "configured inventories with symbolic entry names and every base-URL form: first match in configured order, one warning for none / several.")
LEVEL_NOTE = ("Trusted: symx, the sre-parse-tree -> z3 regex translator in this harness (validated each run against the real re module on concrete patterns/names), z3's "
              "sequence/regex solver ('unknown' = inconclusive), the 10-line specification of the wildcard relation. functools.lru_cache keying is outside.")
BUDGET_S = {"quick": 120, "thorough": 900}
EXPLANATION = ("W: per path of the real _create_regex over a symbolic pattern, the emitted regex is translated to a z3 regular expression and compared with the specification's "
               "z3 regular expression by an inequivalence query over an unbounded z3 string. F: real filter functions on bounded symbolic inventories vs specification. "
               "L: real render_link_inventory with a stub match list of symbolic length.")
ASSUMPTIONS = [
    "pattern characters range over code points 0..0x2FFFF (z3's character sort); Python treats every non-special character above alike",
    "names range over z3 strings (same character range), unbounded length",
    "functools.lru_cache returns the value computed for an equal key (bypassed via __wrapped__)",
]
OUTSIDE = ["patterns longer than the bound", "inv: link spellings with inventory/domain/type parts are exercised only through filter_inventories (family F)", "code points above U+2FFFF", "inventory_cli argument parsing", "Sphinx's intersphinx-backed get_inventory_matches override"]
STUBS = ["re.compile inside _create_regex -> captures the emitted regex text and flags (the text is then translated to z3)", "get_inventory_matches -> list of k symbolic InvMatch objects (family L)"]
NONTRIVIAL_RULE = "W: paths whose pattern contains at least one '*' or backslash; F: paths where at least one entry matched and one did not"

M = {}
ZMAX = 0x2FFFF
SPECIAL = ivs_of_chars(sorted(re._special_chars_map))
META = ivs_of_chars(".^$*+?{}[]\\|()")
ALNUM_ASCII = ivs_of_chars("abcdefghijklmnopqrstuvwxyzABCDEFGHIJKLMNOPQRSTUVWXYZ0123456789")


class Captured:
    def __init__(self, text, flags):
        self.text, self.flags = text, flags


class CaptureRe:
    """`re` stand-in for _create_regex: escape() is symbolic, compile() captures."""

    def __init__(self):
        from symx import sre

        self._sre = sre.SYMRE
        for k in ("DOTALL", "S", "IGNORECASE", "I", "MULTILINE", "M", "VERBOSE", "X", "ASCII", "A", "UNICODE", "U", "Pattern", "error"):
            setattr(self, k, getattr(re, k))

    def escape(self, s):
        return self._sre.escape(s)

    def compile(self, pattern, flags=0):
        return Captured(pattern, int(flags))

    def __getattr__(self, name):
        return getattr(self._sre, name)


def setup():
    if M:
        return
    M.update(load_instrumented(["myst_parser.inventory"]))
    inv = M["myst_parser.inventory"]
    M["create_regex_raw"] = inv._create_regex.__wrapped__


# ------------------------------------------------------------ z3 regex building

SS = z3.StringSort()
RS = z3.ReSort(SS)


def z_any():
    return z3.AllChar(RS)


def z_lit_cp(c, links):
    """regex matching exactly the code point c (int or CP)."""
    if not isinstance(c, int):
        v = core.engine().cp_value(c.id)
        if v is not None:
            c = v
    if isinstance(c, int):
        return z3.Re(z3.StringVal(chr(c)))
    key = c.id
    if key not in links:
        s = z3.String("lit_%d" % key)
        links[key] = (s, [z3.Length(s) == 1, z3.StrToCode(s) == zt(c)])
    return z3.Re(links[key][0])


def z_ranges(ivs):
    parts = []
    for lo, hi in ivs:
        if lo > ZMAX:
            continue
        hi = min(hi, ZMAX)
        parts.append(z3.Re(z3.StringVal(chr(lo))) if lo == hi else z3.Range(chr(lo), chr(hi)))
    if not parts:
        return z3.Empty(RS)
    return parts[0] if len(parts) == 1 else z3.Union(*parts)


def tree_to_z3(items, flags, placeholder, links):
    """Translate an sre parse tree (list of (op, av)) into a z3 regex.  Only constructs that a
    wildcard translator can plausibly emit are supported; anything else is Unsupported."""
    from symx import sre as _sre

    out = []
    for op, av in items:
        if op is K.LITERAL:
            c = placeholder.get(av, av)
            if flags & re.IGNORECASE:
                raise Unsupported("IGNORECASE literal in emitted regex")
            out.append(z_lit_cp(c, links))
        elif op is K.NOT_LITERAL:
            c = placeholder.get(av, av)
            if not isinstance(c, int):
                raise Unsupported("negated symbolic literal")
            out.append(z3.Diff(z_any(), z3.Re(z3.StringVal(chr(c)))))
        elif op is K.ANY:
            out.append(z_any() if flags & re.DOTALL else z3.Diff(z_any(), z3.Re(z3.StringVal("\n"))))
        elif op is K.IN:
            for o2, a2 in av:
                if o2 is K.LITERAL and a2 in placeholder or o2 is K.RANGE and (a2[0] in placeholder or a2[1] in placeholder):
                    raise Unsupported("symbolic literal inside a character class")
            out.append(z_ranges(_sre._item_intervals(op, av, flags)))
        elif op is K.MAX_REPEAT or op is K.MIN_REPEAT:
            lo, hi, sub = av
            r = tree_to_z3(sub.data, flags, placeholder, links)
            if lo == 0 and hi is K.MAXREPEAT:
                out.append(z3.Star(r))
            elif lo == 1 and hi is K.MAXREPEAT:
                out.append(z3.Plus(r))
            elif lo == 0 and hi == 1:
                out.append(z3.Option(r))
            elif hi is K.MAXREPEAT:
                out.append(z3.Concat(z3.Loop(r, lo, lo), z3.Star(r)) if lo else z3.Star(r))
            else:
                out.append(z3.Loop(r, lo, hi))
        elif op is K.SUBPATTERN:
            out.append(tree_to_z3(av[3].data, flags, placeholder, links))
        elif op is K.BRANCH:
            out.append(z3.Union(*[tree_to_z3(alt.data, flags, placeholder, links) for alt in av[1]]))
        elif op is K.AT:
            raise Unsupported("anchor inside emitted regex")
        else:
            raise Unsupported("emitted regex op %s" % op)
    if not out:
        return z3.Re(z3.StringVal(""))
    return out[0] if len(out) == 1 else z3.Concat(*out)


def regex_text_to_z3(text, flags, links):
    """text: str | SStr (regex source with symbolic ordinary characters) -> z3 regex.
    Symbolic characters that could act as metacharacters in their context are case-split first."""
    if isinstance(text, str):
        cps = [ord(c) for c in text]
    else:
        cps = list(text.cps)
    placeholder = {}
    conc = []
    nbs = 0  # number of consecutive backslashes before the current char
    for c in cps:
        if isinstance(c, int):
            conc.append(c)
            nbs = nbs + 1 if c == 92 else 0
            continue
        escaped = nbs % 2 == 1
        if escaped:
            # '\c': special meaning (class / backref / error) only for ASCII alphanumerics
            if cp_in_ivs(c, ALNUM_ASCII):
                v = core.engine().concretize_int(zt(c))
                conc.append(v)
                nbs = 0
                continue
        else:
            if cp_in_ivs(c, META):
                v = core.engine().concretize_int(zt(c))
                conc.append(v)
                nbs = nbs + 1 if v == 92 else 0
                continue
            if flags & re.VERBOSE and cp_in_ivs(c, ivs_of_chars(" \t\n\r\x0b\x0c#")):
                v = core.engine().concretize_int(zt(c))
                conc.append(v)
                nbs = 0
                continue
        ph = 0xF0000 + len(placeholder)
        placeholder[ph] = c
        conc.append(ph)
        nbs = 0
    src = "".join(map(chr, conc))
    try:
        tree = P.parse(src, flags)
    except re.error as e:
        raise RegexError(src, e)
    return tree_to_z3(tree.data, tree.state.flags, placeholder, links)


class RegexError(Exception):
    def __init__(self, src, e):
        self.src, self.e = src, e


def spec_z3(p, links):
    """The documented relation as a z3 regex, built directly from the pattern."""
    cps = [ord(c) for c in p] if isinstance(p, str) else list(p.cps)
    out = []
    i = 0
    n = len(cps)

    def is_(c, k):
        if isinstance(c, int):
            return c == k
        from symx.sstr import atom_eq

        return bool(atom_eq(c, k))

    while i < n:
        c = cps[i]
        if is_(c, 92) and i + 1 < n and is_(cps[i + 1], 42):
            out.append(z3.Re(z3.StringVal("*")))
            i += 2
        elif is_(c, 42):
            out.append(z3.Star(z_any()))
            i += 1
        else:
            out.append(z_lit_cp(c, links))
            i += 1
    if not out:
        return z3.Re(z3.StringVal(""))
    return out[0] if len(out) == 1 else z3.Concat(*out)


def spec_match(name, pattern):
    """Concrete reference: does `name` match `pattern` under the documented semantics?"""
    if pattern is None:
        return True
    toks = []
    i = 0
    while i < len(pattern):
        if pattern[i] == "\\" and i + 1 < len(pattern) and pattern[i + 1] == "*":
            toks.append(("lit", "*"))
            i += 2
        elif pattern[i] == "*":
            toks.append(("any", None))
            i += 1
        else:
            toks.append(("lit", pattern[i]))
            i += 1
    # simple DP
    reach = {0}
    for kind, ch in toks:
        nxt = set()
        if kind == "any":
            if reach:
                lo = min(reach)
                nxt = set(range(lo, len(name) + 1))
        else:
            for j in reach:
                if j < len(name) and name[j] == ch:
                    nxt.add(j + 1)
        reach = nxt
        if not reach:
            return False
    return len(name) in reach


# ------------------------------------------------------------------ family W


def make_wild(eng, n, alphabet=None):
    inv = M["myst_parser.inventory"]
    raw = M["create_regex_raw"]
    cap = CaptureRe()
    p = lift(new_str(eng, "p", n, alphabet=alphabet, ranges=None if alphabet else ((0, ZMAX),))) if n else ""
    name = z3.String("name")
    state = {}

    def wit(m):
        w = {"pattern": eng.eval_model(m, p)}
        nm = m.eval(name, model_completion=True)
        try:
            w["name"] = nm.as_string()
            w["name"] = _z3_unescape(w["name"])
        except Exception:
            w["name"] = None
        return w

    eng.witness_fn = wit

    def body():
        g = raw.__globals__
        saved = g["re"]
        g["re"] = cap
        try:
            try:
                c = raw(p)
            finally:
                g["re"] = saved
        except Exception as e:  # noqa
            eng.fail("create-regex-exception", "%s: %s" % (type(e).__name__, e))
        if not isinstance(c, Captured):
            raise Unsupported("_create_regex did not go through re.compile")
        links = {}
        try:
            r_impl = regex_text_to_z3(c.text, c.flags, links)
        except RegexError as e:
            eng.fail("emitted-regex-invalid", "re.error for emitted text %r: %s" % (e.src, e.e))
        r_spec = spec_z3(p, links)
        cons = []
        for s, cs in links.values():
            cons.extend(cs)
        neq = z3.InRe(name, z3.Union(z3.Diff(r_impl, r_spec), z3.Diff(r_spec, r_impl)))
        q = z3.And(*cons, neq) if cons else neq
        eng.stats["obligations"] += 1
        r = eng._check(q)
        if r == z3.unsat:
            eng.stats["discharged"] += 1
        elif r == z3.sat:
            eng.candidates.append(core.Candidate("wildcard-equivalence", eng.witness(eng.solver.model()), "regex text %r" % (c.text,)))
            raise core.PathStop()
        else:
            raise Unsupported("z3 unknown on the regex inequivalence query")
        for ch in (p.cps if isinstance(p, SStr) else map(ord, p)):
            v = ch if isinstance(ch, int) else eng.cp_value(ch.id)
            if v in (42, 92):
                eng.note("wild_nontrivial")
                break
        return "equivalent"

    return body


def _aid(c, k):
    from symx.sstr import atom_eq

    r = atom_eq(c, k)
    return r.e.get_id() if isinstance(r, SBool) else -1


def _z3_unescape(s):
    # z3 prints non-ASCII as \u{XXXX}
    import re as _re

    return _re.sub(r"\\u\{([0-9a-fA-F]+)\}", lambda m: chr(int(m.group(1), 16)), s)


# ------------------------------------------------------------------ family F


def spec_match_sym(name, pattern):
    """Specification over a symbolic name and a CONCRETE pattern -> bool|SBool (no forks)."""
    if pattern is None:
        return True
    toks = []
    i = 0
    while i < len(pattern):
        if pattern[i] == "\\" and i + 1 < len(pattern) and pattern[i + 1] == "*":
            toks.append("*L")
            i += 2
        elif pattern[i] == "*":
            toks.append(None)
            i += 1
        else:
            toks.append(pattern[i])
            i += 1
    cps = SStr.of(name).cps
    n = len(cps)
    from symx.sstr import atom_eq

    reach = [True] + [False] * n  # reach[j]: symbolic bool "prefix of length j consumed"
    for t in toks:
        nxt = [False] * (n + 1)
        if t is None:
            acc = False
            for j in range(n + 1):
                acc = b_or(acc, reach[j])
                nxt[j] = acc
        else:
            ch = ord("*") if t == "*L" else ord(t)
            for j in range(n):
                nxt[j + 1] = b_and(reach[j], atom_eq(cps[j], ch))
        reach = nxt
    return reach[n]


PATS = [None, "", "*", "a", "a*", "*a", "\\*", "a\\*", ".", "a.", "\\", "a\\", "\\a", "**", "*.*"]


PSETS = [[None, "a\\*"], [None, "p*"], [None, "a*", "b"], PATS]


MATCH_PATTERNS = ["a", "*a", "a*", "*", "\\*", "aa", "a\n", "", "a*a", "\\a"]


def make_match(eng, n, alphabet):
    """The real match_with_wildcard (regex built by _create_regex, applied by the compiled pattern's own method) on a symbolic NAME, incl. line breaks."""
    inv = M["myst_parser.inventory"]
    name = lift(new_str(eng, "n", n, alphabet=alphabet)) if n else ""
    psel = new_int(eng, "p", 0, len(MATCH_PATTERNS) - 1)
    eng.witness_fn = lambda m: {"match_name": eng.eval_model(m, name), "match_pattern": MATCH_PATTERNS[eng.eval_model(m, psel)]}

    def body():
        pat = MATCH_PATTERNS[eng.concretize_int(psel)]
        got = inv.match_with_wildcard(name, pat)
        exp = spec_match_sym(name, pat)
        eng.require(b_iff(got, exp) if not (isinstance(got, bool) and isinstance(exp, bool)) else got == exp, "match-with-wildcard", "pattern %r" % pat)
        eng.note("wild_nontrivial")
        return "ok"

    return body


PSETS_RICH = [[None, "inv"], [None, "*", "c*", "cm", "cm:variable", "p*"], [None, "*", "cache", "variable:cache", "*cache", "v*", "a*"], [None, "*", "a", "\\*"]]


def make_filter(eng, nname, npat_sel=2, rich=False):
    """2 inventories x 1..2 domains x 1..2 types x 2 names (symbolic names), pattern quadruple chosen from PATS."""
    inv = M["myst_parser.inventory"]
    alpha = "a*\\.b"
    names = [new_str(eng, "n0", nname, alphabet=alpha), "zz1", new_str(eng, "n2", nname, alphabet=alpha), "a"]
    PSETS = PSETS_RICH if rich else globals()["PSETS"]
    sel = [new_int(eng, "pat%d" % i, 0, len(PSETS[i]) - 1) for i in range(4)]
    eng.witness_fn = lambda m: {"names": [eng.eval_model(m, x) for x in names], "patterns": [PSETS[i][eng.eval_model(m, s)] for i, s in enumerate(sel)], "rich": rich}

    def body():
        pats = [PSETS[i][eng.concretize_int(s)] for i, s in enumerate(sel)]
        n0, n1, n2, n3 = [x if isinstance(x, str) else lift(x) for x in names]
        # names within one dict must be distinct keys: assume pairwise different where they share a dict
        eng.assume(b_not(SStr.of(n2)._eq(n3)))
        inventories = build_inventories([n0, n1, n2, n3], rich)
        res = list(inv.filter_inventories(inventories, invs=pats[0], domains=pats[1], otypes=pats[2], targets=pats[3]))
        # specification: nested iteration order, all four coordinates match in full
        exp = []
        for iname, idata in inventories.items():
            for dname, ddata in idata["objects"].items():
                for tname, tdata in ddata.items():
                    for target, item in tdata.items():
                        ok = b_and(spec_match_sym(iname, pats[0]), spec_match_sym(dname, pats[1]), spec_match_sym(tname, pats[2]), spec_match_sym(target, pats[3]))
                        exp.append((ok, iname, dname, tname, target, item))
        it = iter(res)
        got = list(res)
        gi = 0
        nm = 0
        for ok, iname, dname, tname, target, item in exp:
            present = gi < len(got) and got[gi].inv == iname and got[gi].domain == dname and got[gi].otype == tname and got[gi].name is target
            # decide by the implementation's outcome, then require the specification to agree on this path
            if present:
                eng.require(ok, "filter-extra", "entry %s:%s:%s returned but must not match" % (iname, dname, tname))
                m_ = got[gi]
                eng.require(m_.loc is item["loc"] and m_.text is item["text"] and m_.base_url == idata_base(inventories, iname) and m_.project == inventories[iname]["name"], "filter-fields")
                gi += 1
                nm += 1
            else:
                eng.require(b_not(ok), "filter-missing", "entry %s:%s:%s not returned but matches" % (iname, dname, tname))
        eng.require(gi == len(got), "filter-order", "results out of inventory order or duplicated")
        # Sphinx in-memory representation must give the same matches
        sph = {k: inv.to_sphinx(v) for k, v in inventories.items()}
        res2 = list(inv.filter_sphinx_inventories(sph, invs=pats[0], domains=pats[1], otypes=pats[2], targets=pats[3]))
        eng.require(len(res2) == len(got), "filter-sphinx-count", "native %d vs sphinx %d" % (len(got), len(res2)))
        for a, b in zip(got, res2):
            eng.require(a.inv == b.inv and a.domain == b.domain and a.otype == b.otype and a.name is b.name and a.loc is b.loc, "filter-sphinx-same")
        if 0 < nm < len(exp):
            eng.note("filter_nontrivial")
        return nm

    return body


def idata_base(inventories, iname):
    return inventories[iname]["base_url"]


def build_inventories(ns, rich=False):
    n0, n1, n2, n3 = ns
    if rich:
        # an object type may contain ':' (only the first ':' of a Sphinx key separates the domain)
        return {
            "inv": {"name": "P", "version": "1", "base_url": "https://x/", "objects": {
                "cm": {"variable:cache": {n0: {"loc": "l0", "text": None}, n1: {"loc": "l1", "text": "T1"}}, "variable": {n2: {"loc": "l2", "text": None}}},
                "py": {"cache": {n3: {"loc": "l3", "text": None}}},
            }},
        }
    return {
        "inv": {"name": "P", "version": "1", "base_url": "https://x/", "objects": {
            "py": {"a.b": {n0: {"loc": "l0", "text": None}, n1: {"loc": "l1", "text": "T1"}}, "*": {"zz": {"loc": "l4", "text": None}}},
        }},
        "a*": {"name": "Q", "version": "2", "base_url": None, "objects": {
            "a": {"a": {n2: {"loc": "l2", "text": None}, n3: {"loc": "l3", "text": None}}},
        }},
    }


TARGETS = ["a", "a*", "*", "ab", "\\*", "b", "*b"]


PATHS = ["", "zeta", "alpha", "zeta:std", "zeta:std:label", "*:std:doc", "*:*:doc", "nosuch", "zeta:py", "z*:s*:l*"]
ENTRY_COORDS = [("zeta", "std", "label"), ("zeta", "std", "label"), ("alpha", "std", "doc")]


def make_invlink(eng, nname, bases=(0,), paths=(0,)):
    """'inv:' links through the real render_link_inventory / get_inventory_matches / filter_inventories with an
    inventory whose entry names are symbolic: 0 matches -> one iref_missing warning and no reference; 1 -> reference to
    base_url + loc; > 1 -> one iref_ambiguous warning and the FIRST match in inventory order."""
    from harness import common_render as CR

    CR.setup()
    names = [new_str(eng, "n%d" % i, nname, alphabet="ab*") for i in range(3)]
    tsel = new_int(eng, "target", 0, len(TARGETS) - 1)
    explicit = new_int(eng, "explicit", 0, 1)
    bsel = new_int(eng, "base", 0, len(bases) - 1)
    psel = new_int(eng, "path", 0, len(paths) - 1)
    eng.witness_fn = lambda m: {"names": [eng.eval_model(m, x) for x in names], "target": TARGETS[eng.eval_model(m, tsel)], "explicit": eng.eval_model(m, explicit), "base": bases[eng.eval_model(m, bsel)],
                               "path": paths[eng.eval_model(m, psel)]}

    def body():
        ns = [lift(x) for x in names]
        eng.assume(b_not(SStr.of(ns[0])._eq(ns[1])))
        eng.assume(b_not(SStr.of(ns[0])._eq(ns[2])))
        eng.assume(b_not(SStr.of(ns[1])._eq(ns[2])))
        target = TARGETS[eng.concretize_int(tsel)]
        ex = bool(eng.concretize_int(explicit))
        bi = bases[eng.concretize_int(bsel)]
        pi = paths[eng.concretize_int(psel)]
        got = run_invlink(CR, CR.R["base"], ns, target, ex, bi=bi, pi=pi)
        exp = [i for i, n in enumerate(ns) if _coords_match(i, pi) and T(spec_match_sym(n, target))]
        check_invlink(eng, got, exp, ex, bi)
        if len(exp) != 1:
            eng.note("filter_nontrivial")
        return len(exp)

    return body


def T(v):
    return v if isinstance(v, bool) else bool(v)


BASES = ["https://base.invalid/root/", "https://base.invalid/root", None, "https://base.invalid/root/index.html/"]


def _coords_match(i, pi):
    """Do the inventory / domain / type of entry i match the link's path filter (omitted parts match everything)?"""
    parts = PATHS[pi].split(":") if PATHS[pi] else []
    return all(spec_match(ENTRY_COORDS[i][j], parts[j]) for j in range(min(3, len(parts))))


def run_invlink(CR, base, ns, target, explicit, real=False, bi=0, pi=0):
    from docutils import nodes
    from markdown_it.token import Token

    # two configured inventories, deliberately NOT in alphabetical order: "inventory order" is the configured order
    ctx = CR.new_context(real=real, config={"inventories": {"zeta": ("https://zeta.invalid/", None), "alpha": ("https://alpha.invalid/", None)}})
    inv_z = {"name": "P", "version": "1", "base_url": BASES[bi], "objects": {"std": {"label": {ns[0]: {"loc": "l0.html", "text": None}, ns[1]: {"loc": "l1.html#x", "text": "T1"}}}}}
    inv_a = {"name": "P", "version": "1", "base_url": BASES[bi], "objects": {"std": {"doc": {ns[2]: {"loc": "l2.html", "text": None}}}}}
    saved = base.inventory.fetch_inventory

    def fetch(path, *a, **k):
        return inv_z if "zeta" in str(path) + str(k.get("base_url")) else inv_a

    base.inventory.fetch_inventory = fetch
    try:
        href = "inv:" + PATHS[pi] + "#" + target
        if explicit:
            link = [Token("link_open", "a", 1, attrs={"href": href}), Token("text", "", 0, content="linktext"), Token("link_close", "a", -1)]
        else:
            link = [Token("link_open", "a", 1, attrs={"href": href}, info="auto", markup="autolink"), Token("text", "", 0, content=href), Token("link_close", "a", -1, info="auto", markup="autolink")]
        ctx.renderer._render_tokens(CR.paragraph(0, "x", children=link))
    finally:
        base.inventory.fetch_inventory = saved
    refs = [(r.get("refuri"), r.astext()) for r in ctx.document.findall(nodes.reference)]
    msgs = [m.astext() for m in CR.messages(ctx.document)]
    texts = [str(t) for t in ctx.document.findall(nodes.Text) if not isinstance(t.parent.parent, nodes.system_message)]
    return refs, msgs, texts


# ---- inventories loaded from local files through the real fetch_inventory (no stub): several keys may share one file

LOCAL_KEYS = [("stable", "https://docs.invalid/stable/", 0), ("latest", "https://docs.invalid/latest", 0), ("other", "https://other.invalid/", 1)]
LOCAL_LINKS = ["stable#one", "latest#one", "*#one", "latest:std:label#two", "other#one", "other#three", "stable#three", "s*#t*",
               "latest:std:doc#two", "latest:std:d*#one", "latest:s*#two", "latest:py:label#two"]


def run_local(CR, order, links, real=False):
    """Three configured inventories (two of them the same local file under different base URLs), links rendered in one document."""
    import os, tempfile, zlib
    from docutils import nodes

    with tempfile.TemporaryDirectory(prefix="symx_c19_") as d:
        files = []
        for i, body in enumerate([b"one std:label -1 one.html#$ -\ntwo std:label -1 dir/two.html Two words\ntwo std:doc -1 docs/two.html Two doc\n", b"three std:label -1 three.html -\n"]):
            path = os.path.join(d, "objects%d.inv" % i)
            open(path, "wb").write(b"# Sphinx inventory version 2\n# Project: P\n# Version: 1\n# The remainder of this file is compressed using zlib.\n" + zlib.compress(body))
            files.append(path)
        keys = [LOCAL_KEYS[i] for i in order]
        ctx = CR.new_context(real=real, config={"inventories": {k: (base, files[fi]) for k, base, fi in keys}})
        text = "\n\n".join("<inv:%s>" % l_ for l_ in links) + "\n"
        ctx.renderer._render_tokens(ctx.md.parse(text, ctx.renderer.md_env))
        out = []
        for para in ctx.document.findall(nodes.paragraph):
            if isinstance(para.parent, nodes.system_message):
                continue
            out.append([r.get("refuri") for r in para.findall(nodes.reference)])
        msgs = [m.astext() for m in CR.messages(ctx.document)]
        return out, msgs


def expected_local(order, link):
    """refuri of the first match in configured order (None if nothing matches) and the number of matches."""
    path, _, target = link.partition("#")
    parts = path.split(":")
    # (name, domain, type, location) in inventory order: domains, then types, in order of first appearance in the file
    entries = {0: [("one", "std", "label", "one.html#one"), ("two", "std", "label", "dir/two.html"), ("two", "std", "doc", "docs/two.html")], 1: [("three", "std", "label", "three.html")]}
    hits = []
    for i in order:
        key, base, fi = LOCAL_KEYS[i]
        if not spec_match(key, parts[0]):
            continue
        for name, dom, typ, loc in entries[fi]:
            if len(parts) > 1 and not spec_match(dom, parts[1]) or len(parts) > 2 and not spec_match(typ, parts[2]):
                continue
            if spec_match(name, target):
                hits.append(base + ("" if base.endswith("/") else "/") + loc)
    return (hits[0] if hits else None), len(hits)


def check_local(order, links, got):
    out, msgs = got
    if len(out) != len(links):
        return ("local-paragraphs", "%d paragraphs for %d links" % (len(out), len(links)))
    namb = nmiss = 0
    for link, refs in zip(links, out):
        want, n = expected_local(order, link)
        if refs != ([want] if want else []):
            return ("local-refuri", "<inv:%s> with inventories %r gives %r, expected %r" % (link, [LOCAL_KEYS[i][:2] for i in order], refs, want))
        namb += n > 1
        nmiss += n == 0
    if sum("[myst.iref_ambiguous]" in m for m in msgs) != namb or sum("[myst.iref_missing]" in m for m in msgs) != nmiss or any("[myst.inv_retrieval]" in m for m in msgs):
        return ("local-warnings", "expected %d ambiguous / %d missing warnings: %r" % (namb, nmiss, msgs))
    return None


def make_local(eng):
    from harness import common_render as CR
    import itertools

    CR.setup()
    ORDERS = [list(p_) for p_ in itertools.permutations(range(3))] + [[0, 1], [1, 0]]
    c = CR.Choice(eng, n=6, width=15)
    state = {}
    eng.witness_fn = lambda m: dict(state)

    def body():
        c.reset()
        order = c.pick(ORDERS)
        links = [c.pick(LOCAL_LINKS), c.pick(LOCAL_LINKS)]
        state.update(local=[order, links])
        try:
            got = run_local(CR, order, links)
        except Exception as exc:  # noqa
            eng.fail("invlink-exception", "%s: %s" % (type(exc).__name__, exc))
        err = check_local(order, links, got)
        if err:
            eng.fail(*err)
        eng.passed(2)
        eng.note("filter_nontrivial")
        return "ok"

    return body


RELLOCS = ["l0.html", "l1.html#x", "l2.html"]


def check_invlink(eng, got, exp, explicit, bi=0):
    # "location joined to its base URL": the location is appended below the base, whether or not the base ends in '/'
    LOCS = [(BASES[bi] + ("" if BASES[bi].endswith("/") else "/") + l) if BASES[bi] else l for l in RELLOCS]
    refs, msgs, texts = got
    nmiss = sum(1 for m in msgs if "[myst.iref_missing]" in m)
    namb = sum(1 for m in msgs if "[myst.iref_ambiguous]" in m)
    if not exp:
        eng.require(nmiss == 1 and namb == 0 and not refs, "invlink-missing", "no match: %d missing / %d ambiguous warnings, %d references" % (nmiss, namb, len(refs)))
        if explicit:
            eng.require(texts.count("linktext") == 1, "invlink-text-lost")
        return
    eng.require(len(refs) == 1, "invlink-reference-count", "%d references" % len(refs))
    eng.require(refs[0][0] == LOCS[exp[0]], "invlink-not-first-match", "refuri %r, first match is entry %d (%s)" % (refs[0][0], exp[0], LOCS[exp[0]]))
    eng.require(nmiss == 0 and namb == (1 if len(exp) > 1 else 0), "invlink-warning-count", "%d matches: %d missing / %d ambiguous warnings" % (len(exp), nmiss, namb))
    if explicit:
        eng.require(refs[0][1] == "linktext", "invlink-text")
    elif exp[0] == 1:
        eng.require(refs[0][1] == "T1", "invlink-implicit-text")


def families(tier, seed):
    q = tier == "quick"
    F = []
    for n in range(0, (4 if q else 5) + 1):
        F.append(Family("W/unicode-N%d" % n, make_wild, "all patterns of exactly %d code points in 0..0x2FFFF; names: z3 strings of unbounded length" % n,
                        args=dict(n=n), nontrivial=("wild_nontrivial" if n >= 2 else None), required=(n <= (4 if q else 5))))
    for n in ([5] if q else [6, 7]):
        F.append(Family("W/sigma-N%d" % n, make_wild, "all patterns of exactly %d chars over 'a*\\\\.?' ; names unbounded" % n,
                        args=dict(n=n, alphabet="a*\\.?"), nontrivial="wild_nontrivial", required=False))
    for n in ([0, 1, 2, 3] if q else [2, 3, 4]):
        F.append(Family("M/name-N%d" % n, make_match, "match_with_wildcard(name, pattern) for every name of %d chars over 'a*\\n\\\\' and patterns %r (whole-string matching incl. names that end in a line break)" % (n, MATCH_PATTERNS),
                        args=dict(n=n, alphabet="a*\n\\"), nontrivial=("wild_nontrivial" if n else None), max_forks=40000))
    for nn in ([1, 2] if q else [2, 3]):
        F.append(Family("F/names%d" % nn, make_filter, "2 inventories / 3 domain:type groups / 5 entries, 2 symbolic names of %d chars over 'a*\\\\.b', filter quadruple from %d patterns each" % (nn, len(PATS)),
                        args=dict(nname=nn), nontrivial="filter_nontrivial", required=(nn <= 1 if q else nn <= 2), max_forks=20000))
    F.append(Family("L/local-files", make_local, "inventories read by the real fetch_inventory from local files: keys %r in every order (two keys share one file under different base URLs) x two links from %r" % ([k_[:2] for k_ in LOCAL_KEYS], LOCAL_LINKS),
                    nontrivial="filter_nontrivial", max_forks=5000))
    F.append(Family("L/bases", make_invlink, "inv: link against 3 entries with 1 symbolic name char each, base URL from %r (with / without trailing slash, none)" % (BASES,), args=dict(nname=1, bases=(0, 1, 2, 3)),
                    nontrivial="filter_nontrivial", max_forks=40000))
    F.append(Family("L/paths", make_invlink, "inv: link whose path part filters inventory / domain / type: %r, against 3 entries with 1 symbolic name char each in two inventories" % (PATHS,), args=dict(nname=1, paths=tuple(range(len(PATHS)))),
                    nontrivial="filter_nontrivial", max_forks=40000))
    F.append(Family("F/colon-types", make_filter, "inventories with an object type containing ':' ('cm' / 'variable:cache'), 2 symbolic names of 1 char, domain and type patterns from %r x %r" % (PSETS_RICH[1], PSETS_RICH[2]),
                    args=dict(nname=1, rich=True), nontrivial="filter_nontrivial", max_forks=40000))
    for nn in ([1, 2] if q else [2, 3]):
        F.append(Family("L/names%d" % nn, make_invlink, "inv: link (explicit text / autolink) with target pattern from %r against an inventory of 3 entries with symbolic names of %d chars over 'ab*'" % (TARGETS, nn),
                        args=dict(nname=nn), nontrivial="filter_nontrivial", max_forks=40000, required=(nn <= 2)))
    return F


# ------------------------------------------------------------------- replay


def replay(label, witness):
    import myst_parser.inventory as real

    if "pattern" in witness:
        p, n = witness["pattern"], witness.get("name")
        try:
            real._create_regex.cache_clear()
            if n is None:
                real._create_regex(p)
                return None
            got = real.match_with_wildcard(n, p)
        except Exception as e:  # noqa
            return ("C19/exception:%s" % type(e).__name__, "match_with_wildcard(%r, %r) raised %s: %s" % (n, p, type(e).__name__, e))
        exp = spec_match(n, p)
        if got != exp:
            return ("C19/wildcard:%s" % _classify(p, n), "match_with_wildcard(name=%r, pattern=%r) = %r, documented semantics = %r" % (n, p, got, exp))
        return None
    if "match_name" in witness:
        n_, p_ = witness["match_name"], witness["match_pattern"]
        try:
            got = real.match_with_wildcard(n_, p_)
        except Exception as e:  # noqa
            return ("C19/exception:%s" % type(e).__name__, "match_with_wildcard(%r, %r) raised %r" % (n_, p_, e))
        exp = spec_match(n_, p_)
        return None if got == exp else ("C19/wildcard:%s" % _classify(p_, n_), "match_with_wildcard(name=%r, pattern=%r) = %r, documented semantics = %r" % (n_, p_, got, exp))
    if "local" in witness:
        from harness import common_render as CR

        order, links = witness["local"]
        try:
            got = run_local(CR, order, links, real=True)
        except Exception as e:  # noqa
            return ("C19/invlink-exception:%s" % type(e).__name__, "%r" % (e,))
        err = check_local(order, links, got)
        return ("C19/%s" % err[0], err[1]) if err else None
    if "target" in witness:
        from harness import common_render as CR
        import myst_parser.mdit_to_docutils.base as rbase

        ns, target, ex = witness["names"], witness["target"], bool(witness["explicit"])
        if len(set(ns)) != 3:
            return None
        try:
            got = run_invlink(CR, rbase, ns, target, ex, real=True, bi=witness.get("base", 0), pi=witness.get("path", 0))
        except Exception as e:  # noqa
            return ("C19/invlink-exception:%s" % type(e).__name__, "%r" % (e,))
        exp = [i for i, n in enumerate(ns) if _coords_match(i, witness.get("path", 0)) and spec_match(n, target)]

        class CE:
            def require(self, c, label, detail=""):
                if not c:
                    raise AssertionError((label, detail))

        try:
            check_invlink(CE(), got, exp, ex, witness.get("base", 0))
        except AssertionError as a:
            label, detail = a.args[0]
            return ("C19/%s" % label, "inv:#%s over names %r (matching entries %r): %s; got %r" % (target, ns, exp, detail, got[:2]))
        return None
    names, pats = witness["names"], witness["patterns"]
    if names[0] == names[1] or names[2] == names[3]:
        return None
    inventories = build_inventories(names, witness.get("rich", False))
    try:
        res = list(real.filter_inventories(inventories, invs=pats[0], domains=pats[1], otypes=pats[2], targets=pats[3]))
        sph = {k: real.to_sphinx(v) for k, v in inventories.items()}
        res2 = list(real.filter_sphinx_inventories(sph, invs=pats[0], domains=pats[1], otypes=pats[2], targets=pats[3]))
    except Exception as e:  # noqa
        return ("C19/exception:%s" % type(e).__name__, "filter raised %r for %r" % (e, witness))
    exp = []
    for iname, idata in inventories.items():
        for dname, ddata in idata["objects"].items():
            for tname, tdata in ddata.items():
                for target, item in tdata.items():
                    if spec_match(iname, pats[0]) and spec_match(dname, pats[1]) and spec_match(tname, pats[2]) and spec_match(target, pats[3]):
                        exp.append((iname, dname, tname, target, item["loc"]))
    got = [(m.inv, m.domain, m.otype, m.name, m.loc) for m in res]
    got2 = [(m.inv, m.domain, m.otype, m.name, m.loc) for m in res2]
    if got != exp:
        cls = "trailing-backslash" if any(p and p.endswith("\\") for p in pats) else "general"
        return ("C19/filter:%s" % cls, "filter_inventories(patterns=%r) over names %r returned %r, specification %r" % (pats, names, got, exp))
    if got2 != got:
        return ("C19/filter-sphinx", "native %r vs sphinx representation %r for patterns %r names %r" % (got, got2, pats, names))
    return None


def _classify(p, n):
    if p.endswith("\\"):
        return "trailing-backslash"
    if "\n" in n:
        return "newline-in-name"
    return "general"


# ----------------------------------------------------------------- selftest


def selftest(seed):
    """Validate the sre-tree -> z3 translator and the spec on concrete (pattern, name) pairs."""
    import random
    import myst_parser.inventory as real

    rnd = random.Random(seed)
    problems = []
    alpha = "a*\\.b\n?+("
    s = z3.Solver()
    s.set("timeout", 5000)
    for _ in range(60):
        p = "".join(rnd.choice(alpha) for _ in range(rnd.randint(0, 5)))
        n = "".join(rnd.choice(alpha) for _ in range(rnd.randint(0, 6)))
        real._create_regex.cache_clear()
        rx = real._create_regex(p)
        links = {}
        try:
            zr = regex_text_to_z3(rx.pattern, rx.flags & ~re.UNICODE, links)
        except Exception as e:  # noqa
            problems.append("translator failed on %r: %r" % (rx.pattern, e))
            continue
        s.push()
        s.add(z3.InRe(z3.StringVal(n), zr))
        r = s.check()
        s.pop()
        got = rx.fullmatch(n) is not None
        if (r == z3.sat) != got:
            problems.append("z3 translation of %r disagrees with re on name %r: z3=%s re=%s" % (rx.pattern, n, r, got))
        s.push()
        s.add(z3.InRe(z3.StringVal(n), spec_z3(p, {})))
        r2 = s.check()
        s.pop()
        if (r2 == z3.sat) != spec_match(n, p):
            problems.append("spec_z3 disagrees with spec_match on (%r, %r)" % (p, n))
        if len(problems) > 4:
            break
    return problems
