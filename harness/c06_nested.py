"""C06 — nested parsing is transparent: directive bodies, fences, include, substitution.

Encoded: render_fence/render_colon_fence/render_directive/run_directive, nested_render_text, render_substitution (base.py),
MockState.nested_parse, MockIncludeDirective.run (mocking.py), parse_directive_text (directives.py) — instrumented;
markdown-it, docutils admonition directives and Jinja native.
"""
from __future__ import annotations

import os
import tempfile

from symx import core
from symx.driver import Family
from harness import common_render as CR

ID = "C06"
TECHNIQUE = "solver-enumerated block sequences X and wrappers W through the instrumented front end; the doctree of W(X) is compared node-for-node with the doctree of X rendered at top level"
LEVEL_TEXT = ("For every block sequence X of the bounded grammar (paragraphs with inline markup, lists, quotes, code, link reference definitions and their uses, targets and '#'-links, footnotes, "
              "a nested admonition, hard line breaks, tab characters, thematic breaks, an indented code block first) and every wrapper W (backtick or colon admonition directive, with ':class:' / '---' option block, nested 1-3 deep, include of a file containing X, block "
              "substitution whose value is X) the nodes produced inside W equal the nodes X produces at document top level (compared structurally, line numbers excepted), and a reference "
              "definition / target / footnote defined inside W is usable by a link placed after W.")
LEVEL_NOTE = ("Degenerate (concrete documents after the solver's choices); the engine enumerates X x W exhaustively and executes the instrumented MyST layers. Headings inside X are excluded (C05).")
BUDGET_S = {"quick": 200, "thorough": 1200}
EXPLANATION = "pformat(body of W(X)) == pformat(X at top level) after Parser.parse; links after W resolve after the transform pipeline."
ASSUMPTIONS = ["'usable from the rest of the document' is judged from a later directive body (link reference definitions are resolved when text is tokenised; top-level text after the wrapper was tokenised before the wrapper was rendered)", "docutils pformat() is a faithful structural rendering (it omits line/source, which C04 covers)"]
OUTSIDE = ["headings inside wrappers (C05)", "directives other than admonitions", "substitutions other than the two configured ones (one used twice in a value, one chained)"]
STUBS = ["file system: temporary directory created at run time for the included file"]
NONTRIVIAL_RULE = "paths whose X contains a definition (link reference, target or footnote) or a nested directive"

XK = ["para", "emph", "list", "quote", "code", "refdef-use", "target-link", "footnote", "nested-note", "two-paras", "html", "hardbreak", "tabs", "rule-in-body", "indented-code-first", "inline-spaces", "dashes-line", "formfeed", "all-indented", "code-blank-spaces", "subst-twice", "subst-chain-twice"]
# substitutions configured globally for every run, so that an X may use them at top level and inside every wrapper (incl. as part of another substitution's value)
SUBS = {"nm": "*World*", "gr": "Hi {{ nm }} and {{ nm }}"}


def setup():
    CR.setup_pipeline()


def x_lines(kind, n):
    return {
        "para": ["X%d plain paragraph" % n],
        "emph": ["X%d *em* **strong** `code` [link](https://e.x/%d)" % (n, n)],
        "list": ["- X%d item" % n, "- second", "", "  nested para"],
        "quote": ["> X%d quoted", ">", "> more"],
        "code": ["```python", "x%d = 1" % n, "```"],
        "refdef-use": ["[lbl%d]: https://ref.x/%d" % (n, n), "", "X%d uses [lbl%d]" % (n, n)],
        "target-link": ["(tgt%d)=" % n, "X%d targeted", "", "see [](#tgt%d)" % n],
        "footnote": ["X%d note[^f%d]" % (n, n), "", "[^f%d]: the note" % n],
        "nested-note": ["```{tip}", "X%d inner tip" % n, "```"],
        "two-paras": ["X%d one" % n, "", "X%d two" % n],
        "html": ["<div>X%d</div>" % n],
        "hardbreak": ["X%d first  " % n, "second\\", "third line"],  # trailing double space / backslash = hard line breaks
        "formfeed": ["X%d a\x0cb c\u2028d" % n, "e\x0bf", "", "next para"],  # characters that str.splitlines treats as line breaks but Markdown does not
        "all-indented": ["    only code %d" % n, "      deeper", "", "    last code line"],  # every line indented: an indented code block, also inside a directive
        "code-blank-spaces": ["```text", "a%d" % n, "   ", "\tb", "```"],  # a line of spaces inside a fenced code block
        "inline-spaces": ["X%d `a  b`  two  spaces\tand a tab" % n, "second  line"],
        "dashes-line": ["X%d para" % n, "", "second para", "-- a line that starts with dashes inside a paragraph", "continues", "", "last para"],
        "rule-in-body": ["X%d before the rule" % n, "", "---", "", "after the rule", "", "-----"],
        "indented-code-first": ["    code first %d" % n, "      more code", "", "X%d para after code" % n],
        "subst-twice": ["X%d {{ nm }} and again {{ nm }} end" % n],  # the same substitution used twice in one value
        "subst-chain-twice": ["X%d {{ gr }} then {{ gr }}" % n, "", "{{ nm }}"],  # a substitution whose value uses another one twice, itself used twice, then the inner one as a block
        "tabs": ["X%d a\tb `c\td`" % n, "", "\tcode\tvia tab", "", "- item\ttab"],
    }[kind]


WRAPPERS = ["note-backtick", "note-colon", "note-class", "note-dashes", "note-blank2", "nested2", "nested3", "include", "substitution", "colon-in-backtick", "colon-firstline", "backtick-firstline", "epigraph", "include-markers"]
FIRSTLINE_OK = ["para", "emph", "two-paras", "inline-spaces", "dashes-line", "formfeed"]  # kinds whose first line may sit on the fence line of an argument-less directive


def wrap(w, xlines):
    """Returns (document lines, extra config)."""
    if w == "note-backtick":
        return ["````{note}"] + xlines + ["````"], {}
    if w == "note-colon":
        return ["::::{note}"] + xlines + ["::::"], {}
    if w == "note-class":
        return ["````{note}", ":class: c"] + xlines + ["````"], {}
    if w == "note-dashes":
        return ["````{note}", "---", "class: c", "---"] + xlines + ["````"], {}
    if w == "note-blank2":
        return ["````{note}", ":class: c", "", ""] + xlines + ["", "````"], {}
    if w == "nested2":
        return ["`````{note}", "````{note}"] + xlines + ["````", "`````"], {}
    if w == "nested3":
        return ["::::::{note}", "`````{note}", "::::{note}"] + xlines + ["::::", "`````", "::::::"], {}
    if w == "colon-firstline":
        return ["::::{note} " + xlines[0]] + xlines[1:] + ["::::"], {}
    if w == "backtick-firstline":
        return ["````{note} " + xlines[0]] + xlines[1:] + ["````"], {}
    if w == "epigraph":
        return ["````{epigraph}"] + xlines + ["````"], {}
    if w == "colon-in-backtick":
        return ["`````{note}", "::::{note}", ":class: c"] + xlines + ["::::", "`````"], {}
    raise ValueError(w)


def parse_only(text, extra=None, real=False, source="src.md"):
    from docutils.utils import new_document
    from docutils.frontend import get_default_settings
    import io

    if real:
        from myst_parser.parsers.docutils_ import Parser
    else:
        Parser = CR.setup_pipeline()["docutils_"].Parser
    settings = get_default_settings(Parser)
    settings.report_level = 5
    settings.halt_level = 6
    settings.warning_stream = io.StringIO()
    settings.myst_enable_extensions = ["colon_fence", "substitution"]
    settings.myst_substitutions = dict(SUBS)
    for k, v in (extra or {}).items():
        setattr(settings, k, v)
    d = new_document(source, settings)
    Parser().parse(text, d)
    return d


def body_of(doc, w):
    """The list of nodes that correspond to X inside wrapper w."""
    from docutils import nodes

    if w in ("include", "substitution", "include-markers"):
        return [c for c in doc.children if not isinstance(c, nodes.caution)]
    if w == "epigraph":
        cands = [c for c in doc.children if isinstance(c, nodes.block_quote)]
        return list(cands[0].children) if len(cands) == 1 else None
    depth = {"nested2": 2, "nested3": 3, "colon-in-backtick": 2}.get(w, 1)
    node = doc
    for _ in range(depth):
        cands = [c for c in node.children if isinstance(c, nodes.note)]
        if len(cands) != 1:
            return None
        node = cands[0]
    return list(node.children)


def fmt(nodes_):
    return "".join(n.pformat() for n in nodes_)


def run_case(kinds, w, real=False):
    """Returns (expected_pformat, got_pformat, resolved_ok, detail)."""
    xl = []
    for n, k in enumerate(kinds):
        if xl:
            xl.append("")
        xl += x_lines(k, n)
    top = parse_only("\n".join(xl) + "\n", real=real)
    from docutils import nodes

    exp = fmt([c for c in top.children])
    after = ["", "AFTER"]
    uses = []
    for n, k in enumerate(kinds):
        if k == "refdef-use":
            uses.append("[lbl%d]" % n)
        if k == "target-link":
            uses.append("[](#tgt%d)" % n)
        if k == "footnote":
            uses.append("again[^f%d]" % n)
    # the uses are placed in a LATER directive body: link reference definitions are resolved by markdown-it at
    # tokenisation time, so only text that is tokenised after the wrapper was rendered (a later nested parse) can see them
    after = ["", "````{caution}", "AFTER " + " ".join(uses), "````"]
    if w == "include-markers":
        # the snippet sits between two occurrences of the SAME marker: start-after is applied first, end-before to what remains
        with tempfile.TemporaryDirectory(prefix="symx_c06_") as d:
            open(os.path.join(d, "inc.md"), "w").write("head text\n\n<!-- snip -->\n" + "\n".join(xl) + "\n<!-- snip -->\n\ntail text\n")
            text = "\n".join(["```{include} inc.md", ":start-after: <!-- snip -->", ":end-before: <!-- snip -->", "```"] + after) + "\n"
            src = os.path.join(d, "src.md")
            doc = parse_only(text, real=real, source=src)
            full, warn = CR.publish(text, {"myst_enable_extensions": ["colon_fence", "substitution"], "myst_substitutions": dict(SUBS), "report_level": 2}, real=real, source=src)
    elif w == "include":
        with tempfile.TemporaryDirectory(prefix="symx_c06_") as d:
            open(os.path.join(d, "inc.md"), "w").write("\n".join(xl) + "\n")
            text = "\n".join(["```{include} inc.md", "```"] + after) + "\n"
            src = os.path.join(d, "src.md")
            doc = parse_only(text, real=real, source=src)
            full, warn = CR.publish(text, {"myst_enable_extensions": ["colon_fence", "substitution"], "myst_substitutions": dict(SUBS), "report_level": 2}, real=real, source=src)
    elif w == "substitution":
        import yaml

        fm = yaml.safe_dump({"myst": {"substitutions": {"xval": "\n".join(xl) + "\n"}}})
        text = "---\n" + fm + "---\n\n{{ xval }}\n" + "\n".join(after) + "\n"
        doc = parse_only(text, real=real)
        full, warn = CR.publish(text, {"myst_enable_extensions": ["colon_fence", "substitution"], "myst_substitutions": dict(SUBS), "report_level": 2}, real=real)
    else:
        lines, _ = wrap(w, xl)
        text = "\n".join(lines + after) + "\n"
        doc = parse_only(text, real=real)
        full, warn = CR.publish(text, {"myst_enable_extensions": ["colon_fence", "substitution"], "myst_substitutions": dict(SUBS), "report_level": 2}, real=real)
    body = body_of(doc, w)
    if body is None:
        return exp, None, True, "wrapper structure not found in %r" % text
    got = fmt(body)
    # usability of definitions after W
    ok = True
    detail = ""
    afterp = [p for p in full.findall(nodes.paragraph) if p.astext().startswith("AFTER")]
    if uses:
        if not afterp:
            ok, detail = False, "paragraph after the wrapper is missing"
        else:
            p = afterp[0]
            for r in p.findall(nodes.reference):
                if not (r.get("refuri") or r.get("refid")) or any(isinstance(c, nodes.system_message) for c in r.children):
                    ok, detail = False, "link %r after the wrapper does not resolve" % r.astext()
            nrefs = len(list(p.findall(nodes.reference))) + len(list(p.findall(nodes.footnote_reference)))
            if nrefs != len(uses):
                ok, detail = False, "%d of %d uses after the wrapper became references (%r)" % (nrefs, len(uses), p.astext())
            for fr in p.findall(nodes.footnote_reference):
                if not fr.get("refid"):
                    ok, detail = False, "footnote reference after the wrapper is unresolved"
            if "xref_missing" in warn or "Unknown target" in warn:
                ok, detail = False, "unresolved reference reported: %r" % warn[:200]
    return exp, got, ok, detail + " | text=%r" % text


def make(eng, nx, wrappers, kinds):
    setup()
    c = CR.Choice(eng, width=31)
    state = {}
    eng.witness_fn = lambda m: dict(state)

    def body():
        c.reset()
        ks = [c.pick(kinds) for _ in range(nx)]
        w = c.pick(wrappers)
        if w in ("colon-firstline", "backtick-firstline") and (ks[0] not in FIRSTLINE_OK or (w == "backtick-firstline" and "`" in x_lines(ks[0], 0)[0])):
            raise core.PathAbort("first line of X cannot sit on the fence line (the info string of a backtick fence cannot contain backticks)")
        state.update(kinds=ks, wrapper=w)
        try:
            exp, got, ok, detail = run_case(ks, w)
        except Exception as exc:  # noqa
            import traceback

            tb = traceback.extract_tb(exc.__traceback__)
            eng.fail("pipeline-raises", "%s: %s at %s" % (type(exc).__name__, exc, tb[-1].name if tb else "?"))
        if got is None:
            eng.fail("wrapper-structure", detail)
        if exp != got:
            eng.fail("nodes-differ", first_diff(exp, got) + detail[-300:])
        if not ok:
            eng.fail("definition-not-usable", detail)
        eng.passed(2)
        if any(k in ("refdef-use", "target-link", "footnote", "nested-note") for k in ks):
            eng.note("definitions")
        return "ok"

    return body


def first_diff(a, b):
    la, lb = a.splitlines(), b.splitlines()
    for i, (x, y) in enumerate(zip(la, lb)):
        if x != y:
            return "first difference at line %d: top-level %r vs nested %r; " % (i, x, y)
    return "length differs: top-level %d lines vs nested %d lines (extra: %r); " % (len(la), len(lb), (la[len(lb):] or lb[len(la):])[:2])


def families(tier, seed):
    q = tier == "quick"
    F = []
    F.append(Family("X1", make, "one block X from %r x wrappers %r" % (XK, WRAPPERS[:-1] + ["include", "substitution"]), args=dict(nx=1, wrappers=WRAPPERS, kinds=XK), nontrivial="definitions", max_forks=100000))
    F.append(Family("X2", make, "two blocks x wrappers", args=dict(nx=2, wrappers=WRAPPERS, kinds=XK if not q else ["para", "list", "refdef-use", "target-link", "footnote", "nested-note"]),
                    nontrivial="definitions", max_forks=400000, required=not q))
    return F


def replay(label, witness):
    ks, w = witness["kinds"], witness["wrapper"]
    try:
        exp, got, ok, detail = run_case(ks, w, real=True)
    except Exception as e:  # noqa
        return ("C06/exception:%s" % type(e).__name__, "X=%r W=%s: %r" % (ks, w, e))
    if got is None:
        return ("C06/wrapper-structure:%s" % w, detail)
    if exp != got:
        return ("C06/nodes-differ:%s:%s" % (w, "+".join(sorted(set(ks)))), "X=%r inside %s: %s" % (ks, w, first_diff(exp, got)) + detail[-300:])
    if not ok:
        return ("C06/definition-not-usable:%s" % w, "X=%r inside %s: %s" % (ks, w, detail))
    return None


def selftest(seed):
    return []
