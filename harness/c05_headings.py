"""C05 — heading levels determine section nesting; nested headings never make sections.

Encoded: DocutilsRenderer._render_tokens, render_heading, update_section_level_state, nested_render_text (_restore),
generate_heading_target, render_blockquote/bullet_list/list_item as containers (mdit_to_docutils/base.py) and
MockState.nested_parse (mocking.py), instrumented; real docutils nodes and markdown-it's SyntaxTreeNode underneath.
"""
from __future__ import annotations

from symx import core
from symx.core import SBool, SInt
from symx.driver import Family
from symx.sstr import SStr, new_str, new_int, new_bool, lift, join
from harness import common_render as CR

ID = "C05"
TECHNIQUE = "bounded symbolic execution (symx + z3) of the real heading/section state machine of DocutilsRenderer on token streams with symbolic heading levels, placements and heading offsets, against a stack-discipline specification"
LEVEL_TEXT = ("For every sequence of up to K headings with symbolic levels 1-6 (the tag text is a symbolic string), each placed at top level, inside a block quote, inside a list item or "
              "inside a directive-style nested parse (with and without match_titles), optionally interleaved with paragraphs, and for heading-offset includes with symbolic offset, the real "
              "renderer's doctree is compared with the stack-discipline specification: parent relation, source order, exactly one non-consecutive-heading warning per upward skip "
              "(attached outside the new section), rubrics with recorded level for nested headings, unchanged level map after nested renders. Directive bodies are nested parses into topic / sidebar / note / "
              "figure nodes; headings inside a quote inside a match_titles parse stay rubrics; offset includes contain real directives (nested renders with offset 0).")
LEVEL_NOTE = ("Degenerate in the level dimension: levels become dict keys in the renderer and are case-split by the engine (solver-mediated exhaustive enumeration of level sequences and placements). "
              "Stubs: markdown-it's tokenizer is not run; tokens are built by the harness; md.parse is stubbed for nested renders. Real docutils nodes underneath.")
BUDGET_S = {"quick": 150, "thorough": 1200}
EXPLANATION = "Token streams with symbolic heading tags rendered by the real (instrumented) renderer; structure extracted from the docutils tree and compared with a stack model."
ASSUMPTIONS = ["the tokenizer emits well-nested heading tokens h1..h6 with maps", "a directive body is rendered through MockState.nested_parse (as docutils directives do)"]
OUTSIDE = ["markdown-it tokenisation", "real include directive file handling (C04/C06)", "sections created inside a match_titles=True nested parse (only the surrounding structure is judged)"]
STUBS = ["md.parse / token streams built directly", "MockStateMachine/MockState constructed directly for nested parses"]
NONTRIVIAL_RULE = "paths with at least one nesting (a section with a section parent), skip warning or rubric"

PLACES = ["top", "top+p", "quote", "item", "nested", "nested-titles"]
# directive bodies are nested parses into the directive's node; docutils classes topic and sidebar as Structural, admonitions/containers as Body elements
NESTED_NODE = {"nested": "container", "nested-topic": "topic", "nested-sidebar": "sidebar", "nested-note": "note", "nested-figure": "figure"}


def setup():
    CR.setup()


def T(v):
    return v if isinstance(v, bool) else bool(v)


def tag_of(levelchar):
    return join("", ["h", levelchar])


def make_seq(eng, k, places, offset_max=0, levels="123456", fm_title=False):
    setup()
    lv = [new_str(eng, "lv%d" % i, 1, alphabet=levels) for i in range(k)]
    pl = [new_int(eng, "pl%d" % i, 0, len(places) - 1) for i in range(k)]
    off = new_int(eng, "offset", 0, offset_max) if offset_max else 0
    eng.witness_fn = lambda m: {"levels": [int(eng.eval_model(m, x)) for x in lv], "places": [places[eng.eval_model(m, p)] for p in pl], "offset": eng.eval_model(m, off) if offset_max else 0, "fm_title": fm_title}

    def body():
        ps = [places[eng.concretize_int(p)] for p in pl]
        o = eng.concretize_int(off) if offset_max else 0
        ctx = CR.new_context(config={"title_to_header": True} if fm_title else None)
        try:
            run_program(CR.R, ctx, [lift(x) for x in lv], ps, o, fm_title)
        except Exception as exc:  # noqa
            import traceback

            eng.fail("render-raises", "%s: %s @ %s" % (type(exc).__name__, exc, traceback.format_tb(exc.__traceback__)[-1][:200]))
        levels = [int(eng.concretize(lift(x))) for x in lv]
        err = check_structure(ctx, levels, ps, o, fm_title)
        if err:
            eng.fail(err[0], err[1])
        eng.passed(8)
        if any(p not in ("top", "top+p", "top+note") for p in ps) or any(b > a for a, b in zip(levels, levels[1:])):
            eng.note("structure")
        return "ok"

    return body


def run_program(R, ctx, levelchars, places, offset, fm_title=False):
    """Render the program on ctx.renderer.  Line numbers: item i starts at line 10*i."""
    from docutils import nodes
    from docutils.statemachine import StringList

    r = ctx.renderer
    mocking = R["mocking"] if "mocking" in R else None
    if fm_title:
        # front matter with a title: title_to_header renders '# <title>' through a nested render before everything else
        from markdown_it.token import Token

        real_parse0 = r.md.parse
        r.md.parse = lambda text, env: CR.heading("h1", 0, "T0") if text.startswith("# T0") else real_parse0(text, env)
        r._render_tokens([Token("front_matter", "", 0, content="title: T0", map=[0, 2], markup="---", block=True, hidden=True)])
        r.md.parse = real_parse0
    if offset:
        # an include with heading-offset: everything is rendered through one nested_render_text at top level
        toks = []
        for i, (lc, p) in enumerate(zip(levelchars, places)):
            toks += item_tokens(i, lc, p)
        real_parse = r.md.parse
        r.md.parse = lambda text, env: toks if text.startswith("included") else real_parse(text, env)
        r.nested_render_text("included", 0, heading_offset=offset)
        return
    for i, (lc, p) in enumerate(zip(levelchars, places)):
        if p in NESTED_NODE or p in ("nested-titles", "nested-titles+quote"):
            cont = NESTED_NODE.get(p, "container")
            cont = getattr(nodes, cont)()
            cont["ids"] = ["cont%d" % i]
            r.current_node.append(cont)
            inner = CR.heading(tag_of(lc), 0, "h%d" % i) + CR.paragraph(2, "np%d" % i)
            if p == "nested-titles+quote":
                # sections are allowed directly under the directive's node only: a heading inside a quote inside it is still a rubric
                inner = CR.blockquote(0, CR.heading(tag_of(lc), 0, "h%d" % i), 1) + CR.paragraph(2, "np%d" % i)
            r.md.parse = lambda text, env, inner=inner: inner
            import myst_parser.mocking as real_mocking

            mk = mocking if mocking is not None else real_mocking
            sm = mk.MockStateMachine(r, 10 * i)
            st = mk.MockState(r, sm, 10 * i)
            st.nested_parse(StringList(["x"], "src.md"), 1, cont, match_titles=(p in ("nested-titles", "nested-titles+quote")))
        else:
            r._render_tokens(item_tokens(i, lc, p))


def item_tokens(i, lc, p):
    line = 10 * i
    h = CR.heading(tag_of(lc), line + 1, "h%d" % i)
    if p == "top":
        return h
    if p == "top+p":
        return CR.paragraph(line, "p%d" % i) + h + CR.paragraph(line + 3, "q%d" % i)
    if p == "top+note":
        # a heading followed by a real {note} directive: its body is a nested render with heading_offset 0 (tokenised natively)
        return h + CR.fence(line + 3, "{note}", "nb%d\n" % i)
    if p == "quote":
        return CR.blockquote(line, h, 3)
    if p == "item":
        return CR.bullet_list(line, [(line, h)], 3)
    raise ValueError(p)


def check_structure(ctx, levels, places, offset, fm_title=False):
    """Compare the produced tree with the stack discipline.  Returns None or (label, detail)."""
    from docutils import nodes

    doc = ctx.document
    # --- specification
    stack = []  # (level, name) of open outer sections
    exp_parent = {}
    exp_rubric = {}
    exp_warn = 0
    order = []
    cur = "doc"  # name of the current outer section (where containers are appended)
    if fm_title:
        # the title heading opens the first level-1 section
        stack.append((1, "T0"))
        exp_parent["T0"] = "doc"
        order.append("T0")
        cur = "T0"
    for i, (L, p) in enumerate(zip(levels, places)):
        name = "h%d" % i
        if p in ("top", "top+p", "top+note"):
            lvl = L + offset
            while stack and stack[-1][0] >= lvl:
                stack.pop()
            parent_level = stack[-1][0] if stack else 0
            exp_parent[name] = stack[-1][1] if stack else "doc"
            if lvl > parent_level + 1:
                exp_warn += 1
            stack.append((lvl, name))
            cur = name
            order.append(name)
        elif p in ("quote", "item", "nested-titles+quote") or p in NESTED_NODE:
            exp_rubric[name] = (L + offset, cur)
        else:  # nested-titles: judged only through the surrounding structure
            pass
    # --- extraction
    sections = {}
    for sec in doc.findall(nodes.section):
        if not len(sec) or not isinstance(sec[0], nodes.title):
            # C03's business (section must start with a title); here we need the title to identify it
            ttl = [c for c in sec.children if isinstance(c, nodes.title)]
            if not ttl:
                return ("section-without-title", "a section has no title child")
            name = ttl[0].astext()
        else:
            name = sec[0].astext()
        if name in sections:
            return ("section-twice", "heading %s produced two sections" % name)
        par = sec.parent
        while par is not None and not isinstance(par, (nodes.section, nodes.document)):
            par = par.parent
        pname = "doc" if isinstance(par, nodes.document) else ([c for c in par.children if isinstance(c, nodes.title)][0].astext())
        direct = isinstance(sec.parent, (nodes.section, nodes.document))
        sections[name] = (pname, direct)
    for name, par in exp_parent.items():
        if name not in sections:
            return ("heading-lost", "top-level heading %s produced no section (sections: %s)" % (name, sorted(sections)))
        if not sections[name][1]:
            return ("section-in-container", "section %s is not directly under document/section" % name)
        if sections[name][0] != par:
            return ("wrong-parent", "levels %s places %s offset %d: section %s is under %s, expected %s" % (levels, places, offset, name, sections[name][0], par))
    nested_titles = {"h%d" % i for i, p in enumerate(places) if p == "nested-titles"}
    extra = set(sections) - set(exp_parent) - nested_titles
    if extra:
        return ("nested-heading-made-section", "headings %s inside containers produced sections" % sorted(extra))
    # source order of outer sections in a document walk
    walk = [s[0].astext() for s in doc.findall(nodes.section) if len(s) and isinstance(s[0], nodes.title) and s[0].astext() in exp_parent]
    if walk != order:
        return ("source-order", "sections appear as %s, expected %s" % (walk, order))
    # rubrics
    rub = {}
    for rb in doc.findall(nodes.rubric):
        par = rb.parent
        while par is not None and not isinstance(par, (nodes.section, nodes.document)):
            par = par.parent
        pname = "doc" if isinstance(par, nodes.document) else ([c for c in par.children if isinstance(c, nodes.title)][0].astext())
        rub[rb.astext()] = (rb.get("level"), pname)
    for name, (lvl, where) in exp_rubric.items():
        if name not in rub:
            return ("nested-heading-not-rubric", "heading %s inside a container did not become a rubric (rubrics: %s, sections: %s)" % (name, sorted(rub), sorted(sections)))
        if rub[name][0] != lvl:
            return ("rubric-level", "rubric %s records level %r, expected %d" % (name, rub[name][0], lvl))
        if rub[name][1] != where and not nested_titles:
            return ("rubric-place", "rubric %s ended up under %s, expected %s" % (name, rub[name][1], where))
    # warnings
    msgs = [m for m in doc.findall(nodes.system_message) if "[myst.header]" in m.astext()]
    if len(msgs) != exp_warn and not nested_titles:
        return ("skip-warning-count", "levels %s places %s offset %d: %d non-consecutive-heading warnings, expected %d" % (levels, places, offset, len(msgs), exp_warn))
    others = [m for m in doc.findall(nodes.system_message) if "[myst.header]" not in m.astext()]
    if others:
        return ("unexpected-warning", others[0].astext()[:200])
    # a section must start with its title (the warning must not be placed in front of it)
    for sec in doc.findall(nodes.section):
        if not isinstance(sec[0], nodes.title):
            return ("section-starts-with-non-title", "section starts with %s" % sec[0].tagname)
    # every paragraph kept, once
    paras = [p.astext() for p in doc.findall(nodes.paragraph) if p.astext()[:1] in "pq"]
    exp_p = []
    for i, p in enumerate(places):
        if p == "top+p":
            exp_p += ["p%d" % i, "q%d" % i]
    if paras != exp_p:
        return ("paragraphs", "paragraphs %s expected %s" % (paras, exp_p))
    # level map consistency: after everything, the renderer's open levels equal the specification's stack
    lm = ctx.renderer._level_to_section
    got = sorted(k for k in lm if k != 0)
    if got != [l for l, _ in stack]:
        return ("level-map", "open levels %s, expected %s (levels %s places %s)" % (got, [l for l, _ in stack], levels, places))
    return None


# ------------------------------------------------------------ directives that allow sections in their body (match_titles=True), nested


def _register_titles_directive():
    from docutils import nodes
    from docutils.parsers.rst import Directive, directives

    class SymxTitles(Directive):
        has_content = True

        def run(self):
            node = nodes.container()
            node["classes"].append("symx-titles")
            self.state.nested_parse(self.content, self.content_offset, node, match_titles=True)
            return [node]

    directives.register_directive("symx-titles", SymxTitles)


def titles_doc(inner_pos, inner_heading, l1, l2):
    inner = [":::{symx-titles}"] + (["#" * 2 + " Inner", ""] if inner_heading else []) + ["inner para", ":::", ""]
    body = []
    if inner_pos == 0:
        body += inner
    body += ["#" * l1 + " First", "", "p1", ""]
    if inner_pos == 1:
        body += inner
    body += ["#" * l2 + " Second", "", "p2", ""]
    if inner_pos == 2:
        body += inner
    return "\n".join(["# Top", "", "::::{symx-titles}"] + body + ["::::", "", "## After", "", "end"]) + "\n"


def check_titles_doc(text, inner_heading, real=False):
    from docutils import nodes

    _register_titles_directive()
    doc, warn = CR.publish(text, {"myst_enable_extensions": ["colon_fence"], "doctitle_xform": False, "report_level": 5}, real=real)
    rubrics = [r.astext() for r in doc.findall(nodes.rubric)]
    titles = [s_[0].astext() for s_ in doc.findall(nodes.section) if len(s_) and isinstance(s_[0], nodes.title)]
    want = ["Top", "First", "Second", "After"] + (["Inner"] if inner_heading else [])
    if rubrics:
        return ("titles-directive-heading-became-rubric", "headings %r directly in the body of a match_titles directive became rubrics (sections %r)" % (rubrics, titles))
    if sorted(titles) != sorted(want):
        return ("titles-directive-sections", "sections %r, expected %r" % (titles, want))
    # Top and After are document-level sections: After must be a child of Top (level 2 under level 1)
    top = [s_ for s_ in doc.findall(nodes.section) if s_[0].astext() == "Top"][0]
    after = [s_ for s_ in doc.findall(nodes.section) if s_[0].astext() == "After"][0]
    if after.parent is not top:
        return ("surrounding-structure-affected", "the heading after the directive is under %s" % (after.parent.tagname,))
    return None


def check_titles_include(l1, linc, l2, offset, real=False):
    """An include with a heading inside the body of a match_titles directive, between two other headings: one nesting rule for all three."""
    import os, tempfile
    from docutils import nodes

    _register_titles_directive()
    with tempfile.TemporaryDirectory(prefix="symx_c05_") as d:
        open(os.path.join(d, "inc.md"), "w").write("#" * linc + " Inc\n\nincluded para\n")
        lines = ["# Top", "", "::::{symx-titles}", "#" * l1 + " First", "", "p1", "", "```{include} inc.md"] + ([":heading-offset: %d" % offset] if offset else []) + ["```", "", "#" * l2 + " Later", "", "p2", "::::", "", "## After", "", "end"]
        text = "\n".join(lines) + "\n"
        doc, warn = CR.publish(text, {"myst_enable_extensions": ["colon_fence"], "doctitle_xform": False, "report_level": 5}, real=real, source=os.path.join(d, "src.md"))
    secs = {s_[0].astext(): s_ for s_ in doc.findall(nodes.section) if len(s_) and isinstance(s_[0], nodes.title)}
    if sorted(secs) != sorted(["Top", "First", "Inc", "Later", "After"]):
        return ("titles-directive-sections", "sections %r in %r" % (sorted(secs), text))
    # the one nesting rule of the document (levels >= 2 here, below '# Top'): the parent is the nearest earlier heading with a lower level
    seq = [(1, "Top"), (l1, "First"), (linc + offset, "Inc"), (l2, "Later")]
    for i, (lv, name) in enumerate(seq):
        if i == 0:
            continue
        want = None
        for plv, pname in reversed(seq[:i]):
            if plv < lv:
                want = pname
                break
        par = secs[name].parent
        got = par[0].astext() if isinstance(par, nodes.section) else None
        if got != want:
            return ("include-in-titles-directive", "levels First=%d Inc=%d(+%d) Later=%d: %s is under %r, expected under %r" % (l1, linc, offset, l2, name, got or par.tagname, want))
    if secs["After"].parent is not secs["Top"]:
        return ("surrounding-structure-affected", "the heading after the directive is under %s" % (secs["After"].parent.tagname,))
    return None


def make_titles_include(eng):
    CR.setup_pipeline()
    c = CR.Choice(eng)
    state = {}
    eng.witness_fn = lambda m: dict(state)

    def body():
        c.reset()
        args = [2 + c.choose(2), 2 + c.choose(2), 2 + c.choose(3), c.choose(2)]
        state.update(titles_include=args)
        try:
            err = check_titles_include(*args)
        except Exception as exc:  # noqa
            eng.fail("render-raises", "%s: %s" % (type(exc).__name__, exc))
        if err:
            eng.fail(*err)
        eng.passed(4)
        eng.note("structure")
        return "ok"

    return body


def make_titles_docs(eng):
    CR.setup_pipeline()
    c = CR.Choice(eng)
    state = {}
    eng.witness_fn = lambda m: dict(state)

    def body():
        c.reset()
        inner_pos, inner_heading, l1, l2 = c.choose(4), bool(c.choose(2)), 1 + c.choose(3), 1 + c.choose(3)
        text = titles_doc(inner_pos, inner_heading, l1, l2)
        state.update(titles_doc=text, inner_heading=inner_heading and inner_pos < 3)
        try:
            err = check_titles_doc(text, inner_heading and inner_pos < 3)
        except Exception as exc:  # noqa
            eng.fail("render-raises", "%s: %s" % (type(exc).__name__, exc))
        if err:
            eng.fail(*err)
        eng.passed(3)
        eng.note("structure")
        return "ok"

    return body


def families(tier, seed):
    q = tier == "quick"
    F = []
    for k in ([2, 3, 4] if q else [3, 4, 5]):
        F.append(Family("top/K%d" % k, make_seq, "all sequences of %d top-level headings (with/without surrounding paragraphs), levels symbolic 1-6" % k,
                        args=dict(k=k, places=["top", "top+p"] if k <= 3 else ["top"]), nontrivial="structure", max_forks=200000, required=(k <= (4 if q else 5))))
    for k in ([2, 3] if q else [3, 4]):
        F.append(Family("mixed/K%d" % k, make_seq, "all sequences of %d headings (levels 1-4 for K3 in the quick tier), each at top level, in a block quote, in a list item or in a nested parse (match_titles on/off)" % k,
                        args=dict(k=k, places=PLACES, levels="1234" if (q and k >= 3) else "123456"), nontrivial="structure", max_forks=200000, required=(k <= 3)))
    F.append(Family("titles-directive-docs", make_titles_docs, "documents with a directive that allows sections in its body (match_titles=True) containing two headings (levels 1-3) and a second such directive before / between / after them, with or without its own heading: "
                    "headings directly in such a body stay sections, the structure after the directive is unaffected", nontrivial="structure", max_forks=10000))
    F.append(Family("titles-directive-include", make_titles_include, "a match_titles directive (below '# Top') whose body has a heading (level 2-3), an include of a file with a heading (level 2-3, heading-offset 0/1) and another heading (level 2-4): "
                    "all three nest by the one level rule, the structure after the directive is unaffected", nontrivial="structure", max_forks=10000))
    F.append(Family("titles-quote/K3", make_seq, "3 headings (levels 1-3), each at top level, directly in a match_titles nested parse, or inside a block quote inside such a nested parse (sections only directly under the directive's node)",
                    args=dict(k=3, places=["top", "nested-titles", "nested-titles+quote"], levels="123"), nontrivial="structure", max_forks=200000))
    for k in ([3] if q else [3, 4]):
        F.append(Family("bodies/K%d" % k, make_seq, "%d headings (levels 1-4 in the quick tier), each at top level or in the body of a directive whose node is a topic / sidebar / note / figure (nested parse without match_titles)" % k,
                        args=dict(k=k, places=["top", "nested-topic", "nested-sidebar", "nested-note"] + ([] if q else ["nested-figure"]), levels="1234" if q else "123456"), nontrivial="structure", max_forks=200000, required=(k <= 3)))
        F.append(Family("offset+body/K%d" % k, make_seq, "%d headings inside an include with heading_offset 1..2, each optionally followed by a {note} directive (nested render with offset 0 inside the offset render)" % k,
                        args=dict(k=k, places=["top", "top+note"], offset_max=2, levels="1234" if q else "123456"), nontrivial="structure", max_forks=200000, required=(k <= 3)))
    F.append(Family("offset+containers/K3", make_seq, "3 headings inside an include with heading_offset 1..2, each at top level, in a block quote or in a list item: rubrics record level + offset", args=dict(k=3, places=["top", "quote", "item"], offset_max=2,
                    levels="1234" if q else "123456"), nontrivial="structure", max_forks=200000))
    F.append(Family("frontmatter-title/K3", make_seq, "front matter 'title:' rendered as a level-1 heading (title_to_header) followed by 3 headings at top level or in a quote", args=dict(k=3, places=["top", "quote"], levels="1234", fm_title=True),
                    nontrivial="structure", max_forks=200000))
    for k in ([3] if q else [3, 4]):
        F.append(Family("offset/K%d" % k, make_seq, "%d headings rendered through nested_render_text with heading_offset 1..3 (include), levels 1-6 => effective levels up to 9" % k,
                        args=dict(k=k, places=["top"], offset_max=3), nontrivial="structure", max_forks=200000))
    return F


def replay(label, witness):
    if "titles_include" in witness:
        try:
            err = check_titles_include(*witness["titles_include"], real=True)
        except Exception as e:  # noqa
            return ("C05/exception:%s" % type(e).__name__, "%r" % (e,))
        return ("C05/%s" % err[0], err[1]) if err else None
    if "titles_doc" in witness:
        try:
            err = check_titles_doc(witness["titles_doc"], witness["inner_heading"], real=True)
        except Exception as e:  # noqa
            return ("C05/exception:%s" % type(e).__name__, "%r" % (e,))
        return ("C05/%s" % err[0], "document %r: %s" % (witness["titles_doc"], err[1])) if err else None
    levels, places, offset = witness["levels"], witness["places"], witness.get("offset", 0)
    fm_title = witness.get("fm_title", False)
    ctx = CR.new_context(real=True, config={"title_to_header": True} if fm_title else None)
    try:
        run_program({}, ctx, [str(l) for l in levels], places, offset, fm_title)
    except Exception as e:  # noqa
        return ("C05/exception:%s" % type(e).__name__, "levels %s places %s offset %s: %r" % (levels, places, offset, e))
    err = check_structure(ctx, levels, places, offset, fm_title)
    if err:
        return ("C05/%s" % err[0], err[1])
    return None


def selftest(seed):
    # concrete differential: instrumented vs real renderer on a few programs
    problems = []
    setup()
    for levels, places, off in [([1, 2, 3], ["top", "top+p", "top"], 0), ([2, 1, 4], ["top", "quote", "top"], 0), ([1, 3], ["top", "nested-titles"], 0), ([5, 1, 6], ["top"] * 3, 2)]:
        a = CR.new_context(real=True)
        b = CR.new_context(real=False)
        run_program({}, a, [str(l) for l in levels], places, off)
        run_program(CR.R, b, [str(l) for l in levels], places, off)
        if a.document.pformat() != b.document.pformat():
            problems.append("instrumented renderer differs from real on %s %s" % (levels, places))
    return problems
