"""C08 — directive text splits into arguments, options, body without loss or leakage.

Encoded: myst_parser.parsers.directives (parse_directive_text, _parse_directive_options,
parse_directive_arguments) with the real option tokenizer (options.py) and the real
textwrap.dedent inside, all instrumented from the current tree / stdlib source.
"""
from __future__ import annotations

import z3

from symx import core
from symx.core import SBool, SInt, b_and, b_or, b_not
from symx.driver import Family, call_with_timeout
from symx.instrument import load_instrumented
from symx.sstr import SStr, new_str, new_int, new_bool, lift, join

ID = "C08"
TECHNIQUE = "bounded symbolic execution (symx + z3) of the real directives.py/options.py/textwrap.dedent against a line-level specification written in the harness"
LEVEL_TEXT = ("Bounded symbolic verification: for every (first line, content, directive declaration) within the bounds, z3 shows on every path of the real "
              "parse_directive_text that the body is exactly the tail of the content lines from body_offset on, that body_offset sits right after the option block "
              "(plus at most one blank line), that ':key:' and '---' spellings agree, the argument-count law, the option validation law (unknown/invalid dropped with a "
              "warning, block overrides defaults) and that only MarkupError escapes.")
LEVEL_NOTE = ("Trusted: symx string/regex model (self-tested against CPython every run, counterexamples replayed on the uninstrumented code), z3, the line-level "
              "specification in this harness. Stubs: directive classes are harness-defined with symbolic declaration; option converters are harness functions "
              "(identity / raising). validate_options=False (yaml.safe_load, used only by myst-nb) is outside.")
BUDGET_S = {"quick": 150, "thorough": 1200}
EXPLANATION = ("Symbolic execution of the real parse_directive_text over symbolic content (raw character strings and line-structured templates), symbolic first line and "
               "symbolic directive declaration; obligations: partition (body == content lines[body_offset:]), offset placement w.r.t. the option block, style equivalence, "
               "argument law, option validation law, exception containment.")
ASSUMPTIONS = [
    "content lines are the source lines, i.e. the pieces between '\\n' characters (markdown-it has normalised CR/CRLF before); form feed, U+0085, U+2028 ... are ordinary characters of a line",
    "a closing '---' delimiter line consists of dashes and trailing spaces only (text after the closing dashes on the same line is outside the claim)",
    "when the first line is merged into the body (directive without arguments) body_offset is not judged here (the first body line is not a content line); see C04 known finding",
    "unknown option keys are reported together in one warning that names each of them (read as 'one warning each' = every unknown key is named in exactly one warning)",
]
OUTSIDE = ["validate_options=False / yaml.safe_load path", "contents longer than the bounds", "real docutils directive classes' own converters (their contract: return a value or raise ValueError/TypeError)"]
STUBS = ["directive class: harness class with symbolic required/optional argument counts, final_argument_whitespace, has_content", "option converters: identity, always-raise ValueError/TypeError, docutils flag"]
NONTRIVIAL_RULE = "paths with a non-empty option block and/or non-empty body that reached the partition obligation"

M = {}


def setup():
    if M:
        return
    M.update(load_instrumented(["textwrap", "myst_parser.parsers.options", "myst_parser.parsers.directives"]))


# ------------------------------------------------------------------ stubs


def conv_unchanged(x):
    return x


def conv_raise_value(x):
    raise ValueError("bad value")


def conv_raise_type(x):
    raise TypeError("bad type")


def conv_tag(x):
    return ("converted", x)


def make_directive(required=0, optional=0, faw=False, has_content=True, spec="std"):
    from docutils.parsers.rst import Directive, directives

    specs = {
        "none": {},
        "null": None,  # docutils' default: no option_spec at all
        "std": {"k": conv_unchanged, "class": conv_tag, "flag": directives.flag, "bad": conv_raise_value, "badt": conv_raise_type},
    }

    class D(Directive):
        required_arguments = required
        optional_arguments = optional
        final_argument_whitespace = faw
        option_spec = specs[spec]

    D.has_content = has_content
    return D


# -------------------------------------------------------------- spec helpers


def T(v):
    return v if isinstance(v, bool) else bool(v)


def _sw(s, p):
    return s.startswith(p)


def _eq(a, b):
    if isinstance(a, SStr) or isinstance(b, SStr):
        return SStr.of(a)._eq(b)
    return a == b


def _is_blank(s):
    st = s.strip()
    return len(st) == 0


def src_lines(content):
    """The source lines of a content string: split on '\\n' only; a final newline terminates the last line."""
    if not len(content):
        return []
    lines = content.split("\n")
    if len(lines[-1]) == 0:
        lines = lines[:-1]
    return list(lines)


def spec_option_block(has_spec, content, eng):
    """(lines, k): content lines and the number of leading lines that belong to the option block."""
    lines = src_lines(content)
    k = 0
    if has_spec and len(content):
        if T(_sw(content, "---")):
            k = len(lines)
            for i in range(1, len(lines)):
                if T(_sw(lines[i], "---")):
                    rest = lines[i].lstrip("-").strip(" ")
                    if len(rest) != 0:
                        raise core.PathAbort("closing delimiter with trailing text: outside the claim")
                    k = i + 1
                    break
        elif T(_sw(content.lstrip(), ":")) and not T(_sw(content.lstrip(), ":::")):
            # ':key:' option lines; a line starting with ':::' is a nested colon fence, not an option
            while k < len(lines) and T(_sw(lines[k].lstrip(), ":")) and not T(_sw(lines[k].lstrip(), ":::")):
                k += 1
    return lines, k


def check_partition(eng, D, first_line, content, res):
    has_spec = bool(D.option_spec)
    lines, k = spec_option_block(has_spec, content, eng)
    noargs = not (T(D.required_arguments != 0) or T(D.optional_arguments != 0))
    merged = noargs and not _is_blank(first_line) if len(first_line) else False
    body = res.body
    off = res.body_offset
    m = 1 if merged else 0
    if merged:
        eng.require(len(body) >= 1 and T(_eq(body[0], first_line)), "merge-first-line")
        tail = body[1:]
        # offset is not judged in the merged case; the tail must be the content after the option block
        start = k
        if not tail:
            # everything after the block must be empty
            eng.require(len(lines) == k, "partition-lost-lines")
        else:
            eng.require(len(tail) == len(lines) - start, "partition-count")
            for a, b in zip(tail, lines[start:]):
                eng.require(_eq(a, b), "partition-line")
        eng.note("partition_nontrivial")
        return
    # offset placement
    if isinstance(off, SInt):
        off = eng.concretize_int(off)
    eng.require(off == k or (off == k + 1 and k < len(lines) and _is_blank(lines[k])), "offset-placement", "offset=%s k=%s nlines=%s" % (off, k, len(lines)))
    eng.require(off + len(body) == len(lines) or (not body and off >= len(lines)), "partition-count", "offset=%s len(body)=%s nlines=%s" % (off, len(body), len(lines)))
    for a, b in zip(body, lines[off:]):
        eng.require(_eq(a, b), "partition-line")
    if off == k and k < len(lines):
        # the optional blank line was not stripped: then the first body line must not be blank
        eng.require(not _is_blank(lines[k]), "blank-not-stripped")
    if k or body:
        eng.note("partition_nontrivial")


def _conc(eng, m, v):
    return eng.eval_model(m, v)


# ----------------------------------------------------------------- families


def make_raw(eng, n, alphabet, first, req=0, opt=0, faw=False, spec="std"):
    d = M["myst_parser.parsers.directives"]
    content = lift(new_str(eng, "c", n, alphabet=alphabet)) if n else ""
    if isinstance(first, tuple):
        # symbolic first line: (length, alphabet)
        first = lift(new_str(eng, "f", first[0], alphabet=first[1]))
    D = make_directive(req, opt, faw, True, spec)
    eng.witness_fn = lambda m: {"first_line": _conc(eng, m, first) if isinstance(first, SStr) else first, "content": _conc(eng, m, content), "decl": [req, opt, faw, True, spec]}

    def body():
        try:
            res = d.parse_directive_text(D, first, content, line=0)
        except d.MarkupError:
            eng.note("markup_error")
            return "MarkupError"
        check_partition(eng, D, first, content, res)
        return "ok"

    return body


LINE_KINDS = ["---", "----", ":K: V", " :K: V", "K: V", "", "  ", "txt", ":::", ":flag:", "K:", ": x"]


SMALL_KINDS = ["---", ":K: V", "K: V", "", "txt"]


def make_lines(eng, nlines, first, trailing_nl, req=0, opt=0, vocab=None):
    """Content = sequence of lines, each a symbolic choice of kind; K/V symbolic single characters."""
    d = M["myst_parser.parsers.directives"]
    KINDS = vocab or LINE_KINDS
    kinds = [new_int(eng, "kind%d" % i, 0, len(KINDS) - 1) for i in range(nlines)]
    ks = [new_str(eng, "k%d" % i, 1, alphabet="kx") for i in range(nlines)]
    vs = [new_str(eng, "v%d" % i, 1, alphabet="v #") for i in range(nlines)]
    D = make_directive(req, opt, False, True, "std")

    def build():
        parts = []
        for i in range(nlines):
            kind = KINDS[eng.concretize_int(kinds[i])]
            if "K" in kind:
                a, _, b = kind.partition("K")
                seg = [a, ks[i]]
                if "V" in b:
                    b1, _, b2 = b.partition("V")
                    seg += [b1, vs[i], b2]
                else:
                    seg.append(b)
                parts.append(join("", seg))
            else:
                parts.append(kind)
        text = join("\n", parts)
        if trailing_nl and nlines:
            text = text + "\n"
        return text

    state = {}
    eng.witness_fn = lambda m: {"first_line": first, "content": _conc(eng, m, state.get("content", "")), "decl": [req, opt, False, True, "std"]}

    def body():
        content = build()
        state["content"] = content
        try:
            res = d.parse_directive_text(D, first, content, line=0)
        except d.MarkupError:
            eng.note("markup_error")
            return "MarkupError"
        check_partition(eng, D, first, content, res)
        return "ok"

    return body


def make_equiv(eng, nopts, nbody):
    """':k: v' spelling vs '---' block spelling of the same options: identical options/body, offsets differ by 2."""
    d = M["myst_parser.parsers.directives"]
    keys = [new_str(eng, "k%d" % i, 1, alphabet="kcx") for i in range(nopts)]
    vals = [new_str(eng, "v%d" % i, 2, alphabet="v1 ") for i in range(nopts)]
    blines = [new_int(eng, "b%d" % i, 0, 2) for i in range(nbody)]
    BK = ["txt", "", "  "]
    D = make_directive(0, 0, False, True, "std")
    state = {}
    eng.witness_fn = lambda m: {"colon": _conc(eng, m, state.get("c1", "")), "dashes": _conc(eng, m, state.get("c2", ""))}

    def body():
        bl = [BK[eng.concretize_int(b)] for b in blines]
        for v in vals:
            # value must be a plain scalar that does not start/end with a space (YAML would strip it in both styles alike; keep it simple)
            pass
        o1 = [join("", [":", k, ": ", v]) for k, v in zip(keys, vals)]
        o2 = [join("", [k, ": ", v]) for k, v in zip(keys, vals)]
        c1 = join("\n", o1 + bl) + "\n"
        c2 = join("\n", ["---"] + o2 + ["---"] + bl) + "\n"
        state["c1"], state["c2"] = c1, c2
        r1 = d.parse_directive_text(D, "", c1, line=0)
        r2 = d.parse_directive_text(D, "", c2, line=0)
        eng.require(len(r1.options) == len(r2.options), "equiv-options-count")
        for k in r1.options:
            eng.require(k in r2.options and T(_veq(r1.options[k], r2.options[k])), "equiv-options")
        eng.require(len(r1.body) == len(r2.body), "equiv-body-count", "%r vs %r" % (len(r1.body), len(r2.body)))
        for a, b in zip(r1.body, r2.body):
            eng.require(_eq(a, b), "equiv-body")
        eng.require(r2.body_offset == r1.body_offset + 2, "equiv-offset", "%s vs %s" % (r1.body_offset, r2.body_offset))
        eng.require(len(r1.warnings) == len(r2.warnings), "equiv-warnings")
        if r1.options:
            eng.note("equiv_nontrivial")
        return "ok"

    return body


def _veq(a, b):
    if isinstance(a, tuple) and isinstance(b, tuple):
        return len(a) == len(b) and all(T(_veq(x, y)) for x, y in zip(a, b))
    if isinstance(a, (str, SStr)) and isinstance(b, (str, SStr)):
        return _eq(a, b)
    return a == b


def make_args(eng, n):
    """Argument law: MarkupError iff count outside [required, required+optional] (unless final_argument_whitespace)."""
    d = M["myst_parser.parsers.directives"]
    first = lift(new_str(eng, "f", n, alphabet="a \tb"))
    req = new_int(eng, "req", 0, 2)
    opt = new_int(eng, "opt", 0, 2)
    faw = new_bool(eng, "faw")
    eng.witness_fn = lambda m: {"first_line": _conc(eng, m, first), "decl": [_conc(eng, m, req), _conc(eng, m, opt), _conc(eng, m, faw)]}

    def body():
        r = eng.concretize_int(req)
        o = eng.concretize_int(opt)
        f = bool(faw)
        D = make_directive(r, o, f, True, "none")
        words = first.split() if len(first) else []
        nw = len(words)
        try:
            res = d.parse_directive_text(D, first, "", line=0)
            raised = False
        except d.MarkupError:
            raised = True
        if r == 0 and o == 0:
            eng.require(not raised, "args-noargs-never-raise")
            return "noargs"
        should = nw < r or (nw > r + o and not f)
        eng.require(raised == should, "args-law", "words=%d req=%d opt=%d faw=%s raised=%s" % (nw, r, o, f, raised))
        if not raised:
            args = res.arguments
            if nw <= r + o:
                eng.require(len(args) == nw and all(T(_eq(a, b)) for a, b in zip(args, words)), "args-values")
            else:
                eng.require(len(args) == r + o, "args-final-count")
                for a, b in zip(args[:-1], words):
                    eng.require(_eq(a, b), "args-values")
                # the final argument keeps the remaining text: it starts with word r+o-1 and ends with the last word
                last = args[-1].strip()
                eng.require(T(last.startswith(words[r + o - 1])) and T(first.strip().endswith(last)), "args-final-text")
            eng.note("args_ok")
        return "ok"

    return body


OPT_KEYS = ["k", "class", "flag", "bad", "badt", "zz", "yy"]


def make_optlaw(eng, nopts, style):
    """Unknown/invalid options dropped with a warning; valid kept and converted; block overrides additional_options."""
    d = M["myst_parser.parsers.directives"]
    sel = [new_int(eng, "key%d" % i, 0, len(OPT_KEYS) - 1) for i in range(nopts)]
    vals = [new_str(eng, "v%d" % i, 1, alphabet="v1") for i in range(nopts)]
    empty = [new_bool(eng, "empty%d" % i) for i in range(nopts)]
    add_sel = new_int(eng, "addkey", 0, len(OPT_KEYS))  # len = no additional option
    D = make_directive(0, 0, False, True, "std")
    state = {}
    eng.witness_fn = lambda m: {"content": _conc(eng, m, state.get("content", "")), "additional": state.get("add")}

    def body():
        keys = [OPT_KEYS[eng.concretize_int(s)] for s in sel]
        emp = [bool(e) for e in empty]
        ai = eng.concretize_int(add_sel)
        add = {OPT_KEYS[ai]: "dflt"} if ai < len(OPT_KEYS) else None
        if style == "colon":
            ls = [join("", [":", k, ":"] + ([] if e else [" ", v])) for k, v, e in zip(keys, vals, emp)]
            content = join("\n", ls + ["body"]) + "\n"
        else:
            ls = [join("", [k, ":"] + ([] if e else [" ", v])) for k, v, e in zip(keys, vals, emp)]
            content = join("\n", ["---"] + ls + ["---", "body"]) + "\n"
        state["content"] = content
        state["add"] = add
        res = d.parse_directive_text(D, "", content, line=0, additional_options=add)
        # expected: last occurrence of a key wins (dict semantics of YAML-ish block), block over additional
        final = {}
        if add:
            final.update(add)
        for k, v, e in zip(keys, vals, emp):
            final[k] = "" if e else v
        spec = D.option_spec
        exp_opts = {}
        n_invalid = 0
        unknown = []
        for k, v in final.items():
            if k not in spec:
                unknown.append(k)
                continue
            if k in ("bad", "badt"):
                n_invalid += 1
                continue
            if k == "flag":
                exp_opts[k] = None
            elif k == "class":
                exp_opts[k] = ("converted", v if len(v) else None)
            else:
                exp_opts[k] = v if len(v) else None
        eng.require(set(res.options) == set(exp_opts), "optlaw-keys", "got %s expected %s" % (sorted(res.options), sorted(exp_opts)))
        for k, v in exp_opts.items():
            eng.require(T(_veq(res.options[k], v)), "optlaw-value", "key %s" % k)
        w = res.warnings
        n_unknown_w = sum(1 for x in w if "Unknown option keys" in _msg(x))
        n_invalid_w = sum(1 for x in w if "Invalid option value" in _msg(x))
        eng.require(n_unknown_w == (1 if unknown else 0), "optlaw-unknown-warning")
        eng.require(n_invalid_w == n_invalid, "optlaw-invalid-warning", "got %d expected %d" % (n_invalid_w, n_invalid))
        eng.require(len(res.body) == 1 and T(_eq(res.body[0], "body")), "optlaw-body")
        eng.note("optlaw")
        return "ok"

    return body


def _msg(w):
    m = w.msg
    return m if isinstance(m, str) else m.concretize() if isinstance(m, SStr) else str(m)


RAW = "-:a \n"


def families(tier, seed):
    q = tier == "quick"
    F = []
    nmax = 7 if q else 9
    for n in range(0, nmax + 1):
        F.append(Family("raw/N%d" % n, make_raw, "all contents of exactly %d chars over %r, first line '', no-argument directive with options" % (n, RAW),
                        args=dict(n=n, alphabet=RAW, first=""), nontrivial=("partition_nontrivial" if n >= 2 else None), required=(n <= (7 if q else 8))))
    for n in ([5] if q else [5, 7]):
        F.append(Family("raw-first/N%d" % n, make_raw, "contents of %d chars over %r, first line 'x' merged into the body" % (n, RAW),
                        args=dict(n=n, alphabet=RAW, first="x"), nontrivial="partition_nontrivial"))
        F.append(Family("raw-args/N%d" % n, make_raw, "contents of %d chars over %r, directive with 1 required argument, first line 'x'" % (n, RAW),
                        args=dict(n=n, alphabet=RAW, first="x", req=1), nontrivial="partition_nontrivial"))
        F.append(Family("raw-nullspec/N%d" % n, make_raw, "contents of %d chars over %r, directive whose option_spec is None (docutils' default)" % (n, RAW),
                        args=dict(n=n, alphabet=RAW, first="", spec="null"), nontrivial="partition_nontrivial"))
        F.append(Family("raw-nospec/N%d" % n, make_raw, "contents of %d chars over %r, directive without option_spec" % (n, RAW),
                        args=dict(n=n, alphabet=RAW, first="", spec="none"), nontrivial="partition_nontrivial"))
    for n in ([4] if q else [4, 6]):
        F.append(Family("raw-symfirst/N%d" % n, make_raw, "contents of %d chars over %r, first line = any 2 chars over ' \\tx' (blank, padded and text first lines), no-argument directive" % (n, RAW),
                        args=dict(n=n, alphabet=RAW, first=(2, " \tx")), nontrivial="partition_nontrivial"))
    F.append(Family("raw-breaks/N4", make_raw, "contents of 4 chars over '-:a\\n\\r\\x0b\\x0c\\x1c\\x85\\u2028' (all str.splitlines separators: only '\\n' may break a line)",
                    args=dict(n=4, alphabet="-:a\n\r\x0b\x0c\x1c\x85 ", first=""), nontrivial="partition_nontrivial", required=True))
    for nl in ([3] if q else [3, 4, 5]):
        for tr in (True, False):
            F.append(Family("lines/L%d%s" % (nl, "+nl" if tr else ""), make_lines,
                            "all sequences of %d lines from the vocabulary %r (%s trailing newline), keys/values symbolic" % (nl, LINE_KINDS, "with" if tr else "without"),
                            args=dict(nlines=nl, first="", trailing_nl=tr), nontrivial="partition_nontrivial", required=(nl <= (3 if q else 4)), max_forks=20000))
    if q:
        F.append(Family("lines/L4+nl-small", make_lines, "all sequences of 4 lines from the reduced vocabulary (trailing newline)", args=dict(nlines=4, first="", trailing_nl=True, vocab=SMALL_KINDS),
                        nontrivial="partition_nontrivial", required=False, max_forks=20000))
    for no, nb in ([(1, 2), (2, 2)] if q else [(1, 3), (2, 3), (3, 2)]):
        F.append(Family("equiv/O%dB%d" % (no, nb), make_equiv, "%d option(s) with symbolic key (1 char of 'kcx') and value (2 chars of 'v1 '), %d body lines from ['txt','','  ']" % (no, nb),
                        args=dict(nopts=no, nbody=nb), nontrivial="equiv_nontrivial", required=(no <= 2)))
    for n in ([4, 5] if q else [5, 6, 7]):
        F.append(Family("args/N%d" % n, make_args, "first line of %d chars over 'a \\tb'; required, optional in 0..2; final_argument_whitespace symbolic" % n,
                        args=dict(n=n), nontrivial="args_ok", required=(n <= (5 if q else 6))))
    for no in ([1, 2] if q else [2, 3]):
        for style in ("colon", "dashes"):
            F.append(Family("optlaw/%s-O%d" % (style, no), make_optlaw, "%d option line(s), key from %r, value 1 char or empty, one optional additional_options default; %s style" % (no, OPT_KEYS, style),
                            args=dict(nopts=no, style=style), nontrivial="optlaw", required=(no <= 2)))
    return F


# ------------------------------------------------------------------- replay


class _ConcreteEng:
    """Evaluate the same obligations concretely (no solver): first failing label wins."""

    def __init__(self):
        self.failed = None

    def require(self, cond, label, detail=""):
        if not cond:
            raise _Fail(label, detail)

    def note(self, *a):
        pass

    def concretize_int(self, v):
        return v


class _Fail(Exception):
    def __init__(self, label, detail):
        self.label, self.detail = label, detail


def replay(label, witness):
    import myst_parser.parsers.directives as real

    ce = _ConcreteEng()
    if "colon" in witness:
        D = make_directive(0, 0, False, True, "std")
        try:
            r1 = real.parse_directive_text(D, "", witness["colon"], line=0)
            r2 = real.parse_directive_text(D, "", witness["dashes"], line=0)
        except Exception as e:  # noqa
            return ("C08/exception:%s" % type(e).__name__, "parse_directive_text raised %r on %r" % (e, witness))
        if r1.options != r2.options or r1.body != r2.body or r2.body_offset != r1.body_offset + 2 or len(r1.warnings) != len(r2.warnings):
            what = "options" if r1.options != r2.options else "body" if r1.body != r2.body else "offset" if r2.body_offset != r1.body_offset + 2 else "warnings"
            return ("C08/equiv:%s" % what, "':k:' style %r -> (%r, %r, %d); '---' style %r -> (%r, %r, %d)" % (
                witness["colon"], r1.options, r1.body, r1.body_offset, witness["dashes"], r2.options, r2.body, r2.body_offset))
        return None
    if "additional" in witness:
        return _replay_optlaw(real, witness)
    decl = witness["decl"]
    if len(decl) == 3:
        return _replay_args(real, witness)
    D = make_directive(*decl)
    first, content = witness["first_line"], witness["content"]
    try:
        res = real.parse_directive_text(D, first, content, line=0)
    except real.MarkupError:
        return None
    except Exception as e:  # noqa
        return ("C08/exception:%s" % type(e).__name__, "parse_directive_text(%r, %r) raised %r" % (first, content, e))
    try:
        check_partition(ce, D, first, content, res)
    except _Fail as f:
        cls = _classify(content, f.label)
        return ("C08/%s:%s" % (f.label, cls), "parse_directive_text(first_line=%r, content=%r) -> body=%r body_offset=%r; content lines=%r (%s)" % (
            first, content, res.body, res.body_offset, src_lines(content), f.detail))
    except core.PathAbort:
        return None
    return None


def _classify(content, label):
    style = "dashes" if content.startswith("---") else "colon" if content.lstrip().startswith(":") else "plain"
    tail = "trailing-blank" if src_lines(content) and not src_lines(content)[-1].strip() else "no-trailing-blank"
    return "%s/%s" % (style, tail)


def _replay_args(real, witness):
    r, o, f = witness["decl"]
    first = witness["first_line"]
    D = make_directive(r, o, f, True, "none")
    words = first.split()
    nw = len(words)
    try:
        res = real.parse_directive_text(D, first, "", line=0)
        raised = False
    except real.MarkupError:
        raised = True
    except Exception as e:  # noqa
        return ("C08/exception:%s" % type(e).__name__, "raised %r" % (e,))
    if r == 0 and o == 0:
        return ("C08/args-noargs-raise", "raised for directive without arguments") if raised else None
    should = nw < r or (nw > r + o and not f)
    if raised != should:
        return ("C08/args-law", "first_line=%r required=%d optional=%d faw=%s: MarkupError raised=%s expected=%s" % (first, r, o, f, raised, should))
    if not raised:
        args = res.arguments
        if nw <= r + o:
            if args != words:
                return ("C08/args-values", "arguments %r != words %r" % (args, words))
        else:
            if len(args) != r + o or args[:-1] != words[: r + o - 1] or not args[-1].strip().startswith(words[r + o - 1]) or not first.strip().endswith(args[-1].strip()):
                return ("C08/args-final", "arguments %r for first line %r" % (args, first))
    return None


def _replay_optlaw(real, witness):
    D = make_directive(0, 0, False, True, "std")
    content, add = witness["content"], witness["additional"]
    try:
        res = real.parse_directive_text(D, "", content, line=0, additional_options=add)
    except Exception as e:  # noqa
        return ("C08/exception:%s" % type(e).__name__, "raised %r on %r" % (e, witness))
    # recompute the expectation from the text with a tiny line parser (keys/values are single tokens here)
    final = dict(add or {})
    for ln in content.splitlines():
        if ln in ("---", "body"):
            continue
        ln = ln[1:] if ln.startswith(":") else ln
        k, _, v = ln.partition(":")
        final[k] = v.strip()
    exp = {}
    n_invalid = 0
    unknown = []
    for k, v in final.items():
        if k not in D.option_spec:
            unknown.append(k)
        elif k in ("bad", "badt"):
            n_invalid += 1
        elif k == "flag":
            exp[k] = None
        elif k == "class":
            exp[k] = ("converted", v or None)
        else:
            exp[k] = v or None
    nu = sum(1 for x in res.warnings if "Unknown option keys" in x.msg)
    ni = sum(1 for x in res.warnings if "Invalid option value" in x.msg)
    if res.options != exp:
        return ("C08/optlaw-options", "content=%r additional=%r -> options %r, expected %r" % (content, add, res.options, exp))
    if nu != (1 if unknown else 0) or ni != n_invalid:
        return ("C08/optlaw-warnings", "content=%r additional=%r -> warnings %r (unknown=%r invalid=%d)" % (content, add, [w.msg for w in res.warnings], unknown, n_invalid))
    if res.body != ["body"]:
        return ("C08/optlaw-body", "body %r" % (res.body,))
    return None


# ----------------------------------------------------------------- selftest


def selftest(seed):
    import random
    import myst_parser.parsers.directives as real
    from symx import sre

    problems = []
    cmp, bad = sre.selftest([(r"^-{3,}", sre.re.MULTILINE), ("^[ \t]+$", sre.re.MULTILINE), ("(^[ \t]*)(?:[^ \t\n])", sre.re.MULTILINE)], seed=seed, max_len=4, n_random=150)
    for b in bad[:3]:
        problems.append("regex shim mismatch: %r" % (b,))
    d = M["myst_parser.parsers.directives"]
    rnd = random.Random(seed)
    D = make_directive(0, 0, False, True, "std")
    texts = []
    import glob

    for fn in glob.glob("/repo/tests/test_renderers/fixtures/directive_parsing.txt"):
        blocks = open(fn, encoding="utf8").read().split("\n.\n")
        for b in blocks:
            if b.startswith("```"):
                body = b.split("\n", 1)[1] if "\n" in b else ""
                texts.append(body.rsplit("```", 1)[0])
    for _ in range(300):
        texts.append("".join(rnd.choice("-:a \nk#\t'") for _ in range(rnd.randint(0, 16))))
    for t in texts:
        def run(mod):
            try:
                r = call_with_timeout(mod.parse_directive_text, 3, D, "", t, line=0)
                return (r.arguments, r.options, r.body, r.body_offset, [w.msg for w in r.warnings])
            except Exception as e:  # noqa
                return type(e).__name__
        a, b = run(real), run(d)
        if a != b:
            problems.append("instrumented directives.py differs from real on %r: %r vs %r" % (t, a, b))
            if len(problems) > 4:
                break
    return problems
