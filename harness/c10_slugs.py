"""C10 — heading anchors follow the GitHub slug rule, are unique, and match myst-anchors.

Encoded: default_slugify, compute_unique_slug (mdit_to_docutils/base.py), instrumented from the current tree.
Oracle : mdit_py_plugins.anchors.index.slugify / unique_slug (the code the myst-anchors CLI runs), instrumented.
"""
from __future__ import annotations

from symx import core
from symx.core import SBool, SInt, b_and, b_or, b_not
from symx.driver import Family
from symx.instrument import load_instrumented
from symx.sstr import SStr, new_str, new_int, lift, join, table, cp_in_ivs, map_case, CP, zt

ID = "C10"
TECHNIQUE = "differential bounded symbolic execution (symx + z3) of the real slug functions against the real mdit_py_plugins.anchors code and a per-character statement of the GitHub rule"
LEVEL_TEXT = ("For every sequence of up to K heading titles of bounded length over an alphabet with upper/lower case, digits, '-', '_', space, punctuation, a non-ASCII letter and a CJK "
              "character, z3 shows on every path that the slug assigned to each heading by the real compute_unique_slug/default_slugify equals the one the real "
              "mdit_py_plugins.anchors code (used by myst-anchors) assigns for the same title sequence, that slugs are pairwise distinct, and that default_slugify equals the "
              "documented per-character rule. For solver-enumerated documents of up to K headings and every anchor depth, the anchors assigned by the real pipeline equal those printed by the real "
              "myst-anchors command (cli.print_anchors, instrumented) and the documented suffix order; a custom slug function raising any of 5 exception classes yields only heading_slug warnings.")
LEVEL_NOTE = ("Trusted: symx (string, regex, case-mapping models; self-tested each run), z3, mdit_py_plugins' anchors code as the reference for uniqueness. Titles have no leading/trailing "
              "white space in the differential against the plugin (the plugin strips, GitHub and MyST do not; see known finding).")
BUDGET_S = {"quick": 120, "thorough": 900}
EXPLANATION = ("Real default_slugify/compute_unique_slug and the plugin's slugify/unique_slug run on the same symbolic titles; the slug table is accumulated exactly as "
               "generate_heading_target / the plugin do. Obligations: per-index equality, pairwise distinctness, documented rule per character; generate_heading_target's depth and failure handling.")
ASSUMPTIONS = ["title text = concatenation of the heading's text and code_inline children (built directly as tokens)",
               "str.lower() is modelled exactly for single-character mappings; alphabets avoid the multi-character mapping of U+0130"]
OUTSIDE = ["titles longer than the bound / more headings than K", "resolution of '#slug' links (C09)", "inline markup other than text/code_inline children"]
STUBS = ["SyntaxTreeNode -> object with to_tokens() returning [open, inline(children=[text tokens]), close]", "custom slug function -> harness function returning a symbolic string or raising"]
NONTRIVIAL_RULE = "paths on which at least two headings collided (suffix logic exercised) or a character was dropped/mapped"

M = {}
P = {}
SIG = "aA1- !_é中"


def setup():
    if M:
        return
    M.update(load_instrumented(["myst_parser.mdit_to_docutils.base"]))
    P.update(load_instrumented(["mdit_py_plugins.anchors.index"]))
    # warm the character tables before the workers are forked
    from symx.sstr import _case_map

    table("lower_changes"), table("space"), _case_map("lower"), table_word()


class _Tok:
    def __init__(self, type_, content=""):
        self.type = type_
        self.content = content
        self.children = None


class _Tree:
    def __init__(self, parts):
        inline = _Tok("inline")
        inline.children = [_Tok(t, c) for t, c in parts]
        self._toks = [_Tok("heading_open"), inline, _Tok("heading_close")]

    def to_tokens(self):
        return self._toks


def _eq(a, b):
    if isinstance(a, SStr) or isinstance(b, SStr):
        return SStr.of(a)._eq(b)
    return a == b


def T(v):
    return v if isinstance(v, bool) else bool(v)


def spec_slug(title):
    """The documented rule, character by character (no regex): lower-case, space -> '-', keep word characters, CJK ideographs and '-'."""
    out = []
    word = table_word()
    for c in SStr.of(title).cps:
        lc = map_case(c, "lower")
        if T(cp_in_ivs(lc, ((32, 32),))):
            out.append(45)
        elif T(cp_in_ivs(lc, word, "slug_keep")):
            out.append(lc)
    return lift(SStr(out))


_WORD = []


def table_word():
    if not _WORD:
        import re
        from symx.sstr import _ivs

        rx = re.compile(r"[\w一-鿿\-]")
        _WORD.append(_ivs(lambda c: rx.fullmatch(chr(c)) is not None))
    return _WORD[0]


def make_slugify(eng, n, alphabet, strip_assumed):
    base = M["myst_parser.mdit_to_docutils.base"]
    plug = P["mdit_py_plugins.anchors.index"]
    t = lift(new_str(eng, "t", n, alphabet=alphabet, ranges=None if alphabet else ((0, 0x12F), (0x131, 0x10FFFF)))) if n else ""
    eng.witness_fn = lambda m: {"titles": [eng.eval_model(m, t)]}

    def body():
        if strip_assumed and n:
            sp = table("space")
            eng.assume(b_not(cp_in_ivs(SStr.of(t).cps[0], sp, "space")))
            eng.assume(b_not(cp_in_ivs(SStr.of(t).cps[-1], sp, "space")))
        s = base.default_slugify(t)
        eng.require(_eq(s, spec_slug(t)), "slugify-rule")
        if strip_assumed:
            eng.require(_eq(s, plug.slugify(t)), "slugify-vs-plugin")
        if len(s) != len(t):
            eng.note("slug_nontrivial")
        return "ok"

    return body


def make_sequence(eng, k, n, alphabet):
    base = M["myst_parser.mdit_to_docutils.base"]
    plug = P["mdit_py_plugins.anchors.index"]
    titles = [lift(new_str(eng, "t%d" % i, n, alphabet=alphabet)) for i in range(k)]
    split = [new_int(eng, "split%d" % i, 0, n) for i in range(k)]  # title = text child + code_inline child
    eng.witness_fn = lambda m: {"titles": [eng.eval_model(m, t) for t in titles]}

    def body():
        sp = table("space")
        for t in titles:
            eng.assume(b_not(cp_in_ivs(SStr.of(t).cps[0], sp, "space")))
            eng.assume(b_not(cp_in_ivs(SStr.of(t).cps[-1], sp, "space")))
        slugs = {}  # accumulated as generate_heading_target does (dict keyed by slug)
        seen_list = []
        pset = ListSet()
        collided = False
        for i, t in enumerate(titles):
            j = eng.concretize_int(split[i])
            tree = _Tree([("text", t[:j]), ("em_open", "x"), ("code_inline", t[j:]), ("softbreak", "y")])
            slug = base.compute_unique_slug(tree, seen_list, None)
            ref = plug.unique_slug(plug.slugify(t), pset)
            eng.require(_eq(slug, ref), "slug-vs-myst-anchors", "heading %d" % i)
            for prev in seen_list:
                eng.require(b_not(_eq(slug, prev)), "slug-unique", "heading %d" % i)
            if len(slug) > len(base.default_slugify(t)):
                collided = True
            seen_list.append(slug)
        if collided:
            eng.note("slug_nontrivial")
        return "ok"

    return body


# ------------------------------------------------------------------- documents: rendering vs the myst-anchors command, all depths

DOC_TITLES = ["a", "a-1", "A", "b c", "?!", "a-2"]
# titles where str.lower and str.casefold differ (sharp s, final sigma), and a title wrapped over two lines (a Setext heading)
ODD_TITLES = ["Stra\u00dfe", "Strasse", "\u039f\u0394\u039f\u03a3 \u03c2", "wrapped\ntitle", "wrappedtitle"]


def expected_slugs(levels, titles, depth):
    """The documented rule: lower-case, spaces to hyphens, punctuation removed; then -1, -2 ... in order of appearance."""
    import re

    seen, out = set(), []
    for l, t in zip(levels, titles):
        if l > depth:
            out.append(None)
            continue
        base_slug = re.sub(r"[^\w\u4e00-\u9fff\- ]", "", t.replace("\n", "").lower().replace(" ", "-"))  # (a line break inside a title contributes nothing)
        want, i = base_slug, 1
        while want in seen:
            want = "%s-%d" % (base_slug, i)
            i += 1
        seen.add(want)
        out.append(want)
    return out
EXC_CLASSES = [ValueError, KeyError, RuntimeError, ZeroDivisionError, AttributeError]


def _failing_slug(title):
    raise EXC_CLASSES[_failing_slug.which]("cannot slug %r" % (title,))


_failing_slug.which = 0


def run_doc(levels, titles, depth, custom, real=False):
    """Returns (rendered slugs in document order, slugs printed by myst-anchors, warning text, n sections)."""
    import io, os, re, tempfile
    from docutils import nodes
    from harness import common_render as CR

    # (front matter and a MyST target line: the command must parse the file with the same MyST rules as the renderer)
    text = "---\nauthor: jo bloggs\n---\n\n" + "".join(("%s\n%s\n\npara\n\n" % (t, "=-"[l - 1] * 3) if "\n" in t else "%s %s\n\npara\n\n" % ("#" * l, t)) for l, t in zip(levels, titles)) + "(lbl)=\nlast para\n\n"
    exp = expected_slugs(levels, titles, depth)
    if custom is None:
        # every anchor is linked once: it must resolve to its own heading
        text += "".join("L%d [](#%s)\n\n" % (j, sl) for j, sl in enumerate(exp) if sl is not None)
    over = {"myst_heading_anchors": depth, "doctitle_xform": False}
    if custom is not None:
        _failing_slug.which = custom
        over["myst_heading_slug_func"] = _failing_slug
    doc, warn = CR.publish(text, over, real=real)
    rendered = [sec["slug"] for sec in doc.findall(nodes.section) if "slug" in sec]
    secs = list(doc.findall(nodes.section))
    nsec = len(secs)
    links = {}
    for p_ in doc.findall(nodes.paragraph):
        m_ = re.match(r"L(\d+) ", p_.astext())
        if m_ and not isinstance(p_.parent, nodes.system_message):
            refs = [r for r in p_.findall(nodes.reference)]
            j = int(m_.group(1))
            links[j] = None
            if len(refs) == 1 and refs[0].get("refid") is not None and j < len(secs):
                links[j] = (refs[0]["refid"] in secs[j]["ids"], refs[0].astext(), refs[0]["refid"])
    if real:
        import myst_parser.cli as cli
    else:
        cli = CLI["myst_parser.cli"]
    with tempfile.TemporaryDirectory(prefix="symx_c10_") as d:
        src, out = os.path.join(d, "in.md"), os.path.join(d, "out.html")
        open(src, "w", encoding="utf8").write(text)
        cli.print_anchors([src, "-o", out, "-l", str(depth)])
        import gc

        gc.collect()  # argparse.FileType handles are closed by the collector
        printed = re.findall(r'<h\d id="([^"]*)"', open(out, encoding="utf8").read())
    return rendered, printed, warn, nsec, links


CLI = {}


def check_doc(levels, titles, depth, custom, res):
    rendered, printed, warn, nsec, links = res
    if nsec != len(levels):
        return ("heading-lost", "%d sections for %d headings" % (nsec, len(levels)))
    within = [(l, t) for l, t in zip(levels, titles) if l <= depth]
    if custom is not None:
        if rendered:
            return ("failing-slug-func-anchors", "anchors %r although the slug function raises" % (rendered,))
        if warn.count("[myst.heading_slug]") != len(within):
            return ("failing-slug-func-warnings", "%d heading_slug warnings for %d headings within depth" % (warn.count("[myst.heading_slug]"), len(within)))
        return None
    if len(rendered) != len(within):
        return ("depth-limit", "depth %d: %d anchors for %d headings within the depth (levels %r)" % (depth, len(rendered), len(within), levels))
    if rendered != printed:
        return ("render-vs-myst-anchors", "levels %r titles %r depth %d: rendering assigns %r, myst-anchors prints %r" % (levels, titles, depth, rendered, printed))
    # documented rule: base slug, then -1, -2 ... in order of appearance
    exp = expected_slugs(levels, titles, depth)
    for (l, t), got, want in zip(within, rendered, [e for e in exp if e is not None]):
        if got != want:
            return ("unique-suffix-order", "levels %r titles %r depth %d: heading %r gets %r, expected %r" % (levels, titles, depth, t, got, want))
    # every anchor resolves through a '#anchor' link to its own heading
    for j, want in enumerate(exp):
        if want is None:
            continue
        if links.get(j) is None:
            return ("anchor-link-unresolved", "levels %r titles %r depth %d: [](#%s) did not resolve (%r)" % (levels, titles, depth, want, warn[:200]))
        ok, shown, refid = links[j]
        if not ok:
            return ("anchor-link-wrong-heading", "levels %r titles %r depth %d: [](#%s) points at %r, not at heading %d (%r)" % (levels, titles, depth, want, refid, j, titles[j]))
    if "[myst.xref_missing]" in warn:
        return ("anchor-link-unresolved", "xref_missing reported: %r" % warn[:200])
    return None


def make_doc(eng, k, depths, with_custom, pool=None, maxlevel=3):
    from harness import common_render as CR

    CR.setup_pipeline()
    if not CLI:
        CLI.update(load_instrumented(["myst_parser.cli"]))
    c = CR.Choice(eng)
    state = {}
    eng.witness_fn = lambda m: dict(state)

    def body():
        c.reset()
        levels = [1 + c.choose(maxlevel) for _ in range(k)]
        titles = [c.pick(pool or (DOC_TITLES if k <= 2 else [t_ for t_ in DOC_TITLES if t_ not in ("A", "b c")])) for _ in range(k)]
        depth = c.pick(depths)
        custom = (c.choose(len(EXC_CLASSES) + 1) - 1) if with_custom else -1
        custom = None if custom < 0 else custom
        state.update(doc=dict(levels=levels, titles=titles, depth=depth, custom=custom))
        try:
            res = run_doc(levels, titles, depth, custom)
        except Exception as exc:  # noqa
            eng.fail("document-raises", "%s: %s (levels %r titles %r depth %r custom %r)" % (type(exc).__name__, exc, levels, titles, depth, custom))
        err = check_doc(levels, titles, depth, custom, res)
        if err:
            eng.fail(*err)
        eng.passed(4)
        if len(set(t.lower() for t in titles)) < len(titles) or custom is not None or pool:
            eng.note("slug_nontrivial")
        return "ok"

    return body


class ListSet:
    """A set for symbolic strings that never hashes: membership = Or of equalities (what `in` means)."""

    def __init__(self):
        self.items = []

    def __iter__(self):
        return iter(self.items)

    def __contains__(self, x):
        from symx.sstr import contains

        return bool(contains(self.items, x))

    def add(self, x):
        self.items.append(x)


def families(tier, seed):
    q = tier == "quick"
    F = []
    for n in range(0, (2 if q else 3) + 1):
        F.append(Family("slugify/unicode-N%d" % n, make_slugify, "all titles of %d code points over full Unicode minus U+0130 (rule only)" % n,
                        args=dict(n=n, alphabet=None, strip_assumed=False), nontrivial=("slug_nontrivial" if n else None), required=(n <= (1 if q else 2))))
    for n in ([3, 4] if q else [4, 5, 6]):
        F.append(Family("slugify/sigma-N%d" % n, make_slugify, "all titles of %d chars over %r without leading/trailing white space: rule and plugin" % (n, SIG),
                        args=dict(n=n, alphabet=SIG, strip_assumed=True), nontrivial="slug_nontrivial", required=(n <= (4 if q else 5))))
    for k, n in ([(2, 2), (3, 1), (4, 1)] if q else [(3, 2), (3, 3), (4, 2), (5, 1), (5, 2), (6, 1)]):
        F.append(Family("sequence/K%d-N%d" % (k, n), make_sequence, "all sequences of %d titles of %d chars over 'aA1- ' (collisions with suffixed forms reachable), text/code_inline split symbolic" % (k, n),
                        args=dict(k=k, n=n, alphabet="aA1- "), nontrivial="slug_nontrivial", required=((k, n) in ((2, 2), (3, 1), (3, 2), (4, 1), (3, 3), (4, 2), (5, 1))), max_forks=30000))
    for k in ([2, 3] if q else [3, 4]):
        F.append(Family("document/K%d" % k, make_doc, "%d headings (level 1-3, title from %r) x heading_anchors depth in %r: rendered anchors vs the real myst-anchors command (-l depth) vs the documented suffix rule; every anchor linked once and resolving to its own heading" % (
            k, DOC_TITLES, [0, 1, 2, 3, 7]), args=dict(k=k, depths=[0, 1, 2, 3, 7], with_custom=False), nontrivial="slug_nontrivial", max_forks=200000, required=(k <= 3)))
    F.append(Family("document/odd-titles", make_doc, "2 headings (level 1-2) with titles from %r (sharp s, final sigma, a Setext title wrapped over two lines) x depth in [1, 2]: same obligations" % (ODD_TITLES,),
                    args=dict(k=2, depths=[1, 2], with_custom=False, pool=ODD_TITLES, maxlevel=2), nontrivial="slug_nontrivial", max_forks=200000))
    F.append(Family("document/failing-slug-func", make_doc, "2 headings x depth x a custom slug function raising one of %r: only [myst.heading_slug] warnings" % ([e.__name__ for e in EXC_CLASSES],),
                    args=dict(k=2, depths=[1, 2, 7], with_custom=True), nontrivial="slug_nontrivial", max_forks=200000))
    return F


# ------------------------------------------------------------------- replay


def replay(label, witness):
    import myst_parser.mdit_to_docutils.base as real
    from mdit_py_plugins.anchors.index import slugify, unique_slug

    if "doc" in witness:
        w = witness["doc"]
        try:
            res = run_doc(w["levels"], w["titles"], w["depth"], w["custom"], real=True)
        except Exception as e:  # noqa
            return ("C10/exception:%s" % type(e).__name__, "%r on %r" % (e, w))
        err = check_doc(w["levels"], w["titles"], w["depth"], w["custom"], res)
        return ("C10/%s" % err[0], err[1]) if err else None
    titles = witness["titles"]
    pset = set()
    seen = {}
    for i, t in enumerate(titles):
        tree = _Tree([("text", t)])
        try:
            s = real.compute_unique_slug(tree, seen, None)
            ds = real.default_slugify(t)
        except Exception as e:  # noqa
            return ("C10/exception:%s" % type(e).__name__, "%r on titles %r" % (e, titles))
        lc = t.lower().replace(" ", "-")
        import re

        rule = "".join(c for c in lc if re.fullmatch(r"[\w一-鿿\-]", c))
        if ds != rule:
            return ("C10/slugify-rule", "default_slugify(%r) = %r, documented rule gives %r" % (t, ds, rule))
        stripped = t == t.strip()
        ref = unique_slug(slugify(t), pset)
        if stripped and s != ref:
            return ("C10/unique-suffix" if slugify(t) == ds else "C10/slugify-vs-plugin", "titles %r: heading %d gets slug %r, myst-anchors (mdit_py_plugins) gives %r" % (titles, i, s, ref))
        if s in seen:
            return ("C10/not-unique", "titles %r: slug %r assigned twice" % (titles, s))
        seen[s] = True
    return None


def selftest(seed):
    import random, re
    import myst_parser.mdit_to_docutils.base as real
    from symx import sre

    problems = []
    cmp, bad = sre.selftest([(r"[^\w一-鿿\- ]", 0)], seed=seed, max_len=3, extra_alpha="é中!A", n_random=200)
    for b in bad[:3]:
        problems.append("regex shim mismatch: %r" % (b,))
    base = M["myst_parser.mdit_to_docutils.base"]
    rnd = random.Random(seed)
    for _ in range(300):
        t = "".join(rnd.choice(SIG + "ZzÉΑ .") for _ in range(rnd.randint(0, 8)))
        if real.default_slugify(t) != base.default_slugify(t):
            problems.append("instrumented default_slugify differs on %r" % t)
            break
        # also through the symbolic path with pinned characters
    return problems
